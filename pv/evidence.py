"""Evidence writer: what a run actually covered (rewritten on every run)."""

import json
import os

VERIF = os.path.dirname(os.path.dirname(os.path.abspath(__file__)))


def write(prop, tier, seed, mod, results, violations, known_hit, harness_errors, replayed, wall):
    meta = getattr(mod, "META", {})
    ok = [r for r in results if r.get("ok")]
    main = [r for r in ok if not r["case"].get("vacuity_twin")]
    twins = [r for r in ok if r["case"].get("vacuity_twin")]
    paths = sum(r.get("paths", 0) for r in ok)
    confirmed = sum(r.get("confirmed", 0) for r in main)
    z3_calls = sum(r.get("z3_calls", 0) for r in ok)
    z3_secs = sum(r.get("z3_secs", 0.0) for r in ok)
    nontrivial = sum(
        r.get("confirmed", 0) for r in main if r.get("paths", 0) >= 2 or r.get("obligations", 0) >= 1
    )
    exhaustive = bool(main) and all(r.get("exhausted") and not r.get("unknown") for r in main)
    percase = []
    for r in ok:
        c = r["case"]
        percase.append(
            {
                "id": c["id"],
                "kind": c.get("kind", "xsym"),
                "vacuity_twin": bool(c.get("vacuity_twin")),
                "paths": r.get("paths", 0),
                "confirmed": r.get("confirmed", 0),
                "refuted": r.get("refuted", 0),
                "unknown": r.get("unknown", 0),
                "ignored_by_assume": r.get("ignored", 0),
                "exhausted": bool(r.get("exhausted")),
                "timed_out": bool(r.get("timed_out")),
                "z3_checks": r.get("z3_calls", 0),
                "z3_secs": round(r.get("z3_secs", 0.0), 3),
                "wall_s": round(r.get("wall_s", 0.0), 2),
                "trivial_single_path": r.get("paths", 0) < 2 and not r.get("obligations"),
                **({"queries": r["queries"]} if "queries" in r else {}),
            }
        )
    samples = []
    for r in main:
        for s in r.get("samples", [])[:2]:
            samples.append({"case": r["case"]["id"], "solver_model_of_confirmed_path": s})
        if len(samples) >= 12:
            break
    for r in main:
        for cx in r.get("counterexamples", [])[:2]:
            samples.append(
                {
                    "case": r["case"]["id"],
                    "counterexample_args": cx.get("args"),
                    "message": cx.get("message"),
                    "replay": cx.get("replay"),
                }
            )
    if not samples:
        samples = [{"case": r["case"]["id"], "params": r["case"].get("params")} for r in main[:3]]
    ev = {
        "property_id": prop,
        "tier": tier,
        "seed": seed,
        "level": meta.get("level", "model_checking"),
        "coverage": {
            "states": max(paths, 1),
            "transitions": max(z3_calls, 1),
            "traces_validated_against_impl": replayed + sum(r.get("validated_concretely", 0) for r in ok),
            "evaluations": max(paths, 1),
            "distinct_nontrivial": nontrivial,
            "rule": (
                "one evaluation = one execution path of a harness over symbolic inputs (a distinct "
                "sequence of solver-decided branch outcomes; the shared path tree never repeats one); "
                "non-trivial = the path reached and passed the harness' final obligations in a case "
                "whose tree has >= 2 feasible paths (or, for direct SMT queries, one discharged query). "
                "states = paths explored, transitions = z3 check() calls (branch decisions/queries)."
            ),
            "samples": samples,
            "exhaustive": exhaustive,
            "explanation": meta.get("explanation", ""),
            "technique": meta.get("technique", "bounded symbolic execution of the real code (CrossHair internals + z3)"),
            "functions_encoded": meta.get("functions", []),
            "bounds": meta.get("bounds", {}).get(tier, meta.get("bounds", {})),
            "outside_bounds": meta.get("out_of_scope", []),
            "cases": len(main),
            "cases_exhausted": sum(1 for r in main if r.get("exhausted") and not r.get("unknown")),
            "vacuity_twins": len(twins),
            "vacuity_twins_refuted": sum(1 for r in twins if r.get("counterexamples")),
            "paths_confirmed": confirmed,
            "paths_unknown": sum(r.get("unknown", 0) for r in ok),
            "solver_queries": z3_calls,
            "solver_sat": sum(r.get("z3_sat", 0) for r in ok),
            "solver_unsat": sum(r.get("z3_unsat", 0) for r in ok),
            "solver_unknown": sum(r.get("z3_unknown", 0) for r in ok),
            "solver_time_s": round(z3_secs, 3),
            "counterexamples_replayed": replayed,
            "known_findings_reproduced": sorted(known_hit),
            "harness_errors": harness_errors[:10],
            "per_case": percase,
        },
        "assumptions": meta.get("assumptions", []),
        "wall_s": round(wall, 2),
        "violations": len(violations),
    }
    os.makedirs(os.path.join(VERIF, "evidence"), exist_ok=True)
    with open(os.path.join(VERIF, "evidence", f"{prop}.json"), "w") as f:
        json.dump(ev, f, indent=1, default=str)
