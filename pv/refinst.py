"""Reference instrumenter ("twins"): an AST pass written from the Python language
reference, sharing no code with ptera.

From the source of a template module it produces a *twin* module in which every
top-level function selected for instrumentation reports to a recorder
(``_pvT``) what Python itself does:

  * every binding of a name by the function's own body -- parameters at entry,
    plain / tuple / nested / starred / chained / augmented / annotated
    assignment, ``for`` target, ``with ... as``, ``except ... as``, ``import``,
    assignment expression -- in execution order with the value bound;
  * activation entry / exit, the value actually returned on normal completion,
    the exception on exceptional completion, per-iteration begin/end of ``for``
    loops (on every way of leaving the iteration), yield / receive.

Each binding goes through ``frame.b(name, value)`` which may *substitute* the
value (substitution twin for override checks) and the function continues with
what ``b`` returns.

The recorder also keeps the dynamic call tree (activation ids and parents), so
the same log serves the call-path oracles.
"""

from __future__ import annotations

import ast
import linecache

T_NAME = "_pvT"
F_NAME = "_pvF"
E_NAME = "_pvE"


# --------------------------------------------------------------------------
# recorder (runtime side)
# --------------------------------------------------------------------------


class Frame:
    __slots__ = ("rec", "aid", "fname", "parent", "latest", "pending", "errored", "depth", "params")

    def __init__(self, rec, aid, fname, parent):
        self.rec, self.aid, self.fname, self.parent = rec, aid, fname, parent
        self.latest = {}
        self.pending = None  # index in rec.events of the tentative 'value' event
        self.errored = False
        self.params = {}  # parameter name -> value at entry (Python binds all parameters at once)

    # bindings ---------------------------------------------------------
    def b(self, name, value):
        rec = self.rec
        sub = rec.subst
        if sub is not None:
            value = sub(self, name, value)
        self.latest[name] = value
        rec.events.append(("bind", self.aid, name, value, dict(self.latest)))
        return value

    def p(self, name, value):
        """Parameter binding at entry."""
        value = self.b(name, value)
        self.params[name] = value
        ev = self.rec.events[-1]
        self.rec.events[-1] = ("bind", ev[1], ev[2], ev[3], ev[4], "param")
        return value

    # meta -------------------------------------------------------------
    def ret(self, value):
        rec = self.rec
        if rec.subst is not None:
            value = rec.subst(self, "#value", value)
        if self.pending is not None:
            rec.events[self.pending] = None  # superseded (e.g. return in finally)
        self.pending = len(rec.events)
        rec.events.append(("value", self.aid, value))
        return value

    def error(self, exc):
        # the activation ends by raising: a tentative return value is void
        if self.pending is not None:
            self.rec.events[self.pending] = None
            self.pending = None
        self.errored = True
        self.rec.events.append(("error", self.aid, exc))

    def exit(self):
        self.rec.events.append(("exit", self.aid))
        st = self.rec.stack
        if self in st:
            st.remove(self)

    def loop(self, names):
        for n in names:
            self.rec.events.append(("loop", self.aid, n))

    def endloop(self, names):
        for n in names:
            self.rec.events.append(("endloop", self.aid, n))

    def yld(self, value):
        if self.rec.subst is not None:
            value = self.rec.subst(self, "#yield", value)
        self.rec.events.append(("yield", self.aid, value))
        if self in self.rec.stack:  # suspended: not part of the live call stack
            self.rec.stack.remove(self)
        return value

    def recv(self, value):
        if self not in self.rec.stack:
            self.rec.stack.append(self)
        if self.rec.subst is not None:
            value = self.rec.subst(self, "#receive", value)
        self.rec.events.append(("receive", self.aid, value))
        return value


class Recorder:
    """Collects the reference trace.  ``subst(frame, name, value) -> value``."""

    def __init__(self, subst=None):
        self.events = []
        self.stack = []
        self.acts = {}  # aid -> Frame
        self.subst = subst
        self.n = 0

    def enter(self, fname):
        parent = self.stack[-1].aid if self.stack else None
        fr = Frame(self, self.n, fname, parent)
        self.acts[self.n] = fr
        self.n += 1
        self.stack.append(fr)
        self.events.append(("enter", fr.aid, fname, parent))
        return fr

    def log(self):
        return [e for e in self.events if e is not None]


# --------------------------------------------------------------------------
# AST pass
# --------------------------------------------------------------------------


def _names_in_target(t):
    """Names bound by an assignment target, in binding (left-to-right) order."""
    if isinstance(t, ast.Name):
        return [t.id]
    if isinstance(t, (ast.Tuple, ast.List)):
        out = []
        for e in t.elts:
            out += _names_in_target(e)
        return out
    if isinstance(t, ast.Starred):
        return _names_in_target(t.value)
    return []  # attribute / subscript stores bind no name


def _call(obj, meth, *args):
    return ast.Call(
        func=ast.Attribute(value=ast.Name(id=obj, ctx=ast.Load()), attr=meth, ctx=ast.Load()),
        args=list(args), keywords=[])


def _bind_stmt(name, meth="b"):
    return ast.Assign(
        targets=[ast.Name(id=name, ctx=ast.Store())],
        value=_call(F_NAME, meth, ast.Constant(name), ast.Name(id=name, ctx=ast.Load())),
    )


class _Expr(ast.NodeTransformer):
    """Rewrites assignment expressions and yields inside one function body."""

    def visit_Lambda(self, node):
        return node

    def visit_FunctionDef(self, node):
        return node

    visit_AsyncFunctionDef = visit_FunctionDef
    visit_ClassDef = visit_FunctionDef

    def visit_NamedExpr(self, node):
        v = self.visit(node.value)
        return ast.NamedExpr(target=node.target,
                             value=_call(F_NAME, "b", ast.Constant(node.target.id), v))

    def visit_Yield(self, node):
        v = self.visit(node.value) if node.value is not None else ast.Constant(None)
        return _call(F_NAME, "recv", ast.Yield(value=_call(F_NAME, "yld", v)))


class Twin:
    def __init__(self):
        self.ex = _Expr()
        self.tmp = 0

    def expr(self, e):
        return self.ex.visit(e) if e is not None else None

    def binds(self, names):
        return [_bind_stmt(n) for n in names]

    def block(self, stmts):
        out = []
        for s in stmts:
            out.extend(self.stmt(s))
        return out or [ast.Pass()]

    def stmt(self, s):
        if isinstance(s, (ast.FunctionDef, ast.AsyncFunctionDef, ast.ClassDef)):
            return [s]
        if isinstance(s, ast.Return):
            v = self.expr(s.value) if s.value is not None else ast.Constant(None)
            return [ast.Return(value=_call(F_NAME, "ret", v))]
        if isinstance(s, ast.Assign):
            s.value = self.expr(s.value)
            if len(s.targets) == 1 and isinstance(s.targets[0], ast.Attribute) and isinstance(
                    s.targets[0].value, ast.Name):
                t = s.targets[0]
                s.value = _call(F_NAME, "b", ast.Constant(f"{t.value.id}.{t.attr}"), s.value)
                return [s]
            if (len(s.targets) == 1 and isinstance(s.targets[0], ast.Subscript)
                    and isinstance(s.targets[0].value, ast.Name)
                    and isinstance(s.targets[0].slice, ast.Constant)):
                t = s.targets[0]
                s.value = _call(F_NAME, "b", ast.Constant(f"{t.value.id}[{t.slice.value!r}]"), s.value)
                return [s]
            if any(isinstance(t, (ast.Tuple, ast.List)) for t in s.targets):
                # Python evaluates the value once and binds the targets (and the leaves of each target) strictly
                # left to right -- the same name may be bound several times by one statement: unpack into fresh
                # temporaries of the same shape, then bind leaf by leaf.
                self.tmp += 1
                tv = f"_pv_v{self.tmp}"
                out = [ast.Assign(targets=[ast.Name(id=tv, ctx=ast.Store())], value=s.value)]
                for t in s.targets:
                    leaves = []

                    def clone(x):
                        if isinstance(x, (ast.Tuple, ast.List)):
                            return type(x)(elts=[clone(e) for e in x.elts], ctx=ast.Store())
                        if isinstance(x, ast.Starred):
                            return ast.Starred(value=clone(x.value), ctx=ast.Store())
                        self.tmp += 1
                        n = f"_pv_u{self.tmp}"
                        leaves.append((n, x))
                        return ast.Name(id=n, ctx=ast.Store())

                    shape = clone(t)
                    out.append(ast.Assign(targets=[shape], value=ast.Name(id=tv, ctx=ast.Load())))
                    for n, leaf in leaves:
                        src = ast.Name(id=n, ctx=ast.Load())
                        if isinstance(leaf, ast.Name):
                            out.append(ast.Assign(targets=[ast.Name(id=leaf.id, ctx=ast.Store())],
                                                  value=_call(F_NAME, "b", ast.Constant(leaf.id), src)))
                        else:
                            out.append(ast.Assign(targets=[leaf], value=src))
                return out
            names = []
            for t in s.targets:
                names += _names_in_target(t)
            return [s] + self.binds(names)
        if isinstance(s, ast.AugAssign):
            s.value = self.expr(s.value)
            return [s] + self.binds(_names_in_target(s.target))
        if isinstance(s, ast.AnnAssign):
            if s.value is None:
                return [s]
            s.value = self.expr(s.value)
            return [s] + self.binds(_names_in_target(s.target))
        if isinstance(s, ast.For):
            names = _names_in_target(s.target)
            lit = ast.Tuple(elts=[ast.Constant(n) for n in names], ctx=ast.Load())
            body = [
                ast.Expr(_call(F_NAME, "loop", lit)),
                ast.Try(body=self.binds(names) + self.block(s.body), handlers=[], orelse=[],
                        finalbody=[ast.Expr(_call(F_NAME, "endloop", lit))]),
            ]
            return [ast.For(target=s.target, iter=self.expr(s.iter), body=body,
                            orelse=self.block(s.orelse) if s.orelse else [], type_comment=None)]
        if isinstance(s, ast.While):
            return [ast.While(test=self.expr(s.test), body=self.block(s.body),
                              orelse=self.block(s.orelse) if s.orelse else [])]
        if isinstance(s, ast.If):
            return [ast.If(test=self.expr(s.test), body=self.block(s.body),
                           orelse=self.block(s.orelse) if s.orelse else [])]
        if isinstance(s, ast.With):
            names = []
            for it in s.items:
                it.context_expr = self.expr(it.context_expr)
                if it.optional_vars is not None:
                    names += _names_in_target(it.optional_vars)
            return [ast.With(items=s.items, body=self.binds(names) + self.block(s.body), type_comment=None)]
        if isinstance(s, ast.Try):
            handlers = []
            for h in s.handlers:
                hb = (self.binds([h.name]) if h.name else []) + self.block(h.body)
                handlers.append(ast.ExceptHandler(type=self.expr(h.type), name=h.name, body=hb))
            return [ast.Try(body=self.block(s.body), handlers=handlers,
                            orelse=self.block(s.orelse) if s.orelse else [],
                            finalbody=self.block(s.finalbody) if s.finalbody else [])]
        if isinstance(s, (ast.Import, ast.ImportFrom)):
            names = [(a.asname or a.name).split(".")[0] for a in s.names]
            return [s] + self.binds(names)
        if isinstance(s, (ast.Expr, ast.Raise, ast.Assert, ast.Delete)):
            return [self.ex.visit(s)]
        if isinstance(s, (ast.Pass, ast.Break, ast.Continue, ast.Global, ast.Nonlocal)):
            return [s]
        raise NotImplementedError(f"refinst: statement {type(s).__name__}")

    def function(self, node):
        a = node.args
        params = [x.arg for x in [*a.posonlyargs, *a.args, *a.kwonlyargs] ]
        if a.vararg:
            params.append(a.vararg.arg)
        if a.kwarg:
            params.append(a.kwarg.arg)
        body = list(node.body)
        doc = []
        if body and isinstance(body[0], ast.Expr) and isinstance(body[0].value, ast.Constant) and isinstance(
                body[0].value.value, str):
            doc, body = [body[0]], body[1:]
        inner = [_bind_stmt(n, "p") for n in params] + self.block(body) + [ast.Return(value=_call(F_NAME, "ret", ast.Constant(None)))]
        wrapped = ast.Try(
            body=[ast.Try(
                body=inner,
                handlers=[ast.ExceptHandler(
                    type=ast.Name(id="BaseException", ctx=ast.Load()), name=E_NAME,
                    body=[ast.Expr(_call(F_NAME, "error", ast.Name(id=E_NAME, ctx=ast.Load()))), ast.Raise()])],
                orelse=[], finalbody=[])],
            handlers=[], orelse=[],
            finalbody=[ast.Expr(_call(F_NAME, "exit"))])
        enter = ast.Assign(targets=[ast.Name(id=F_NAME, ctx=ast.Store())],
                           value=_call(T_NAME, "enter", ast.Constant(node.name)))
        new = ast.FunctionDef(name=node.name, args=node.args, body=doc + [enter, wrapped],
                              decorator_list=node.decorator_list, returns=node.returns, type_comment=None)
        if hasattr(node, "type_params"):
            new.type_params = node.type_params
        return ast.copy_location(new, node)


def make_twin_source(src, functions):
    """Return the source of the twin module: the named functions (top-level, or
    'Class.method', or 'outer.inner' for a function nested in a function) are rewritten."""
    tree = ast.parse(src)
    tw = Twin()
    want = set(functions)

    def walk(body, prefix):
        for i, node in enumerate(body):
            if isinstance(node, ast.FunctionDef):
                q = prefix + node.name
                # descend first so that nested targets are rewritten before the parent is wrapped
                walk(node.body, q + ".")
                if q in want:
                    body[i] = tw.function(node)
            elif isinstance(node, ast.ClassDef):
                walk(node.body, prefix + node.name + ".")

    walk(tree.body, "")
    ast.fix_missing_locations(tree)
    return ast.unparse(tree)


_counter = [0]


def load_source(src, modname="pv_tmpl", extra=None):
    """exec `src` under a synthetic filename registered in linecache (inspect.getsource works)."""
    _counter[0] += 1
    fname = f"<pv:{modname}:{_counter[0]}>"
    linecache.cache[fname] = (len(src), None, src.splitlines(True), fname)
    ns = {"__name__": modname}
    if extra:
        ns.update(extra)
    exec(compile(src, fname, "exec", dont_inherit=True), ns)
    return ns
