"""Scripted call trees over three mutually calling functions + an independent
reference matcher for call-path selectors (C03) and total probes (C07).

The *call tree* is driven by a script (pre-order): every activation binds its context
variable and `x`, then repeatedly reads the next script item:
  0 = return, 1/2/3 = call f/g/h, 4 = raise Boom here, 5/6/7 = call f/g/h catching Boom.
After every nested call returns the activation rebinds both variables, so "latest value at
that moment" is distinguishable.  All bound values are base + k for a (symbolic) base and a
global counter k, hence pairwise distinct: an event that takes a value from the wrong
activation can never coincide with the right one.

Selector specs are structured (levels with context variables and sibling clauses); the
reference semantics is written from the property statement, on the twin's activation log.
"""

from __future__ import annotations

SRC = '''
def f(E):
    a = E.val()
    x = E.val()
    while True:
        op = E.next()
        if op == 0:
            break
        if op == 4:
            raise Boom(E.val())
        E.call(op)
        a = E.val()
        x = E.val()
    return x

def g(E):
    b = E.val()
    x = E.val()
    while True:
        op = E.next()
        if op == 0:
            break
        if op == 4:
            raise Boom(E.val())
        E.call(op)
        b = E.val()
        x = E.val()
    return x

def h(E):
    c = E.val()
    x = E.val()
    while True:
        op = E.next()
        if op == 0:
            break
        if op == 4:
            raise Boom(E.val())
        E.call(op)
        c = E.val()
        x = E.val()
    return x

def drive(E):
    while True:
        op = E.next()
        if op == 0 or op == 4:
            break
        try:
            E.call(op)
        except Boom:
            pass
'''

TMPL = {"name": "calltree", "src": SRC, "funcs": ["f"], "twin_funcs": ["f", "g", "h"], "gen": False}
# "late" variant: an activation binds its context variable for the first time only after its first nested call has
# returned, so nested matches fire while an outer captured variable is still unbound (it must be omitted from those events
# and present in the later ones)
SRC_LATE = SRC
for _v in "abc":
    SRC_LATE = SRC_LATE.replace(f"    {_v} = E.val()\n    x = E.val()\n    while True:", "    x = E.val()\n    while True:")
assert SRC_LATE.count("E.val()") == SRC.count("E.val()") - 3
TMPL_LATE = {"name": "calltree_late", "src": SRC_LATE, "funcs": ["f"], "twin_funcs": ["f", "g", "h"], "gen": False}
CTXVAR = {"f": "a", "g": "b", "h": "c"}


class Env:
    """Script cursor and value source shared by one run."""

    def __init__(self, ns, script, base, alphabet, pick):
        self.ns, self.script, self.base, self.alphabet, self.pick = ns, script, base, alphabet, pick
        self.i = 0
        self.k = 0
        self.depth = 0

    def next(self):
        if self.i >= len(self.script):
            return 0
        op = self.pick(self.script[self.i], self.alphabet)  # concrete after the comparison chain
        self.i += 1
        return op

    def val(self):
        self.k += 1
        return self.base + self.k

    def call(self, op):
        from pv.corpus.base import Boom

        fn = self.ns["fgh"[(op - 1) % 4]] if op <= 3 else self.ns["fgh"[op - 5]]
        if op <= 3:
            return fn(self)
        try:
            return fn(self)
        except Boom:
            return None


# --------------------------------------------------------------------------
# selector specs
# --------------------------------------------------------------------------


class Level:
    def __init__(self, fn, ctx=(), sibs=()):
        self.fn, self.ctx, self.sibs = fn, list(ctx), list(sibs)  # sibs: [(fn, var)]

    def text(self, extra=None):
        parts = list(self.ctx) + [f"{sf}({sv})" for sf, sv in self.sibs] + ([extra] if extra else [])
        return f"{self.fn}({', '.join(parts)})" if parts else self.fn


class Spec:
    """levels[0] > levels[1] > ... > focus   (focus None => focus-free / total selector)"""

    def __init__(self, levels, focus="x"):
        self.levels, self.focus = levels, focus

    def text(self):
        if self.focus is None:
            # nested form: f(a, g(b, h(c)))
            def nest(i):
                lv = self.levels[i]
                inner = nest(i + 1) if i + 1 < len(self.levels) else None
                return lv.text(inner)
            return nest(0)
        return " > ".join(lv.text() for lv in self.levels) + f" > {self.focus}"

    def names(self):
        out = set()
        for lv in self.levels:
            out.update(lv.ctx)
            out.update(v for _, v in lv.sibs)
        if self.focus:
            out.add(self.focus)
        return out


def _embeddings(stack_fns, level_fns, last_fixed=True):
    """All strictly increasing index tuples (i_1<...<i_n) with stack_fns[i_j]==level_fns[j];
    if last_fixed the last index must be the top of the stack."""
    n, m = len(level_fns), len(stack_fns)
    out = []

    def rec(j, start, acc):
        if j == n:
            out.append(tuple(acc))
            return
        for i in range(start, m):
            if stack_fns[i] == level_fns[j]:
                if j == n - 1 and last_fixed and i != m - 1:
                    continue
                rec(j + 1, i + 1, acc + [i])

    rec(0, 0, [])
    return out


def expected_immediate(rec, spec):
    """Per focus binding (in execution order): list of expected events (one per embedding)."""
    stack = []  # activation ids, live
    fn_of = {}
    latest = {}  # aid -> {var: value}
    sib = {}  # aid -> {(fn, var): value}  latest value bound in a descendant activation of fn
    groups = []
    lfns = [lv.fn for lv in spec.levels]
    for e in rec.log():
        k = e[0]
        if k == "enter":
            aid, fname = e[1], e[2]
            stack.append(aid)
            fn_of[aid] = fname
            latest[aid] = {}
            sib[aid] = {}
        elif k == "exit":
            if e[1] in stack:
                stack.remove(e[1])
        elif k == "bind":
            aid, var, val = e[1], e[2], e[3]
            latest[aid][var] = val
            for anc in stack:
                if anc != aid:
                    sib[anc][(fn_of[aid], var)] = val
            if var == spec.focus and stack and stack[-1] == aid and fn_of[aid] == lfns[-1]:
                evs = []
                for emb in _embeddings([fn_of[s] for s in stack], lfns):
                    ev = {var: val}
                    for lv, idx in zip(spec.levels, emb):
                        A = stack[idx]
                        for c in lv.ctx:
                            if c in latest[A] and not (A == aid and c == var):
                                ev[c] = latest[A][c]
                        for sf, sv in lv.sibs:
                            if (sf, sv) in sib[A]:
                                ev[sv] = sib[A][(sf, sv)]
                    evs.append(ev)
                groups.append(evs)
    return groups


def expected_total(rec, spec):
    """Records of a focus-free selector: one per *ended* activation of the outermost function,
    at that moment, holding per capture all values (in order) from activations embedded
    under it; none if some capture stayed empty.  Returns [(exit position, record)]."""
    lfns = [lv.fn for lv in spec.levels]
    fn_of, parent = {}, {}
    stack = []
    # values[outer aid][capture] = list of values
    acc = {}
    out = []
    mult = [0]
    names = spec.names()
    for pos, e in enumerate(rec.log()):
        k = e[0]
        if k == "enter":
            aid = e[1]
            fn_of[aid] = e[2]
            stack.append(aid)
            if e[2] == lfns[0]:
                acc[aid] = {n: [] for n in names}
        elif k == "bind":
            aid, var, val = e[1], e[2], e[3]
            if aid not in stack:
                continue
            sfns = [fn_of[s] for s in stack[: stack.index(aid) + 1]]
            # for every outermost activation O on the stack: does some embedding of a prefix of the
            # chain place a level (or a sibling clause of a level) on `aid` capturing `var`?
            for oi, O in enumerate(stack):
                if fn_of[O] != lfns[0] or oi > stack.index(aid):
                    continue
                sub = sfns[oi:]
                count = 0
                for j, lv in enumerate(spec.levels):
                    # level j itself sits on aid
                    if var in lv.ctx and fn_of[aid] == lv.fn:
                        embs = [em for em in _embeddings(sub, lfns[: j + 1]) if em[0] == 0]
                        count += len(embs)
                    # a sibling clause of level j matches aid (any depth below the level-j activation)
                    for sf, sv in lv.sibs:
                        if sv == var and fn_of[aid] == sf:
                            for em in _embeddings(sub[:-1], lfns[: j + 1], last_fixed=False):
                                if em[0] == 0:
                                    count += 1
                # the property: "all the values it took ... in the order they were taken": each value once,
                # however many ways the chain embeds
                if count:
                    acc[O][var].append(val)
                    mult[0] = max(mult[0], count)
        elif k == "exit":
            aid = e[1]
            if aid in stack:
                stack.remove(aid)
            if aid in acc:
                recd = acc.pop(aid)
                if all(recd[n] for n in names):
                    out.append((pos, recd))
    return out


def expected_total_focused(rec, spec):
    """Focused selector forced to total mode: at the exit of each outermost activation O, one
    record per focus binding made under O (per embedding), each with the *complete* values of the
    outer captures.  Returns [(exit position, [records])]."""
    lfns = [lv.fn for lv in spec.levels]
    log = rec.log()
    fn_of, parent, children = {}, {}, {}
    binds = {}  # aid -> {var: [values]}
    stack = []
    pending = {}  # O -> list of (embedding activations, value)
    out = []

    def descendants(a):
        res = []
        for c in children.get(a, []):
            res.append(c)
            res += descendants(c)
        return res

    for pos, e in enumerate(log):
        k = e[0]
        if k == "enter":
            aid = e[1]
            fn_of[aid] = e[2]
            parent[aid] = stack[-1] if stack else None
            children.setdefault(parent[aid], []).append(aid)
            binds[aid] = {}
            stack.append(aid)
            if e[2] == lfns[0]:
                pending[aid] = []
        elif k == "bind":
            aid, var, val = e[1], e[2], e[3]
            binds[aid].setdefault(var, []).append(val)
            if var == spec.focus and stack and stack[-1] == aid and fn_of[aid] == lfns[-1]:
                sfns = [fn_of[s] for s in stack]
                for emb in _embeddings(sfns, lfns):
                    pending[stack[emb[0]]].append(([stack[i] for i in emb], val))
        elif k == "exit":
            aid = e[1]
            if aid in stack:
                stack.remove(aid)
            if aid in pending:
                recs = []
                for acts, val in pending.pop(aid):
                    r = {spec.focus: [val]}
                    okr = True
                    for lv, A in zip(spec.levels, acts):
                        for c in lv.ctx:
                            vs = [v for v in binds[A].get(c, [])]
                            if c == spec.focus and A == acts[-1]:
                                continue
                            r[c] = vs
                        for sf, sv in lv.sibs:
                            vs = []
                            for d in descendants(A):
                                if fn_of[d] == sf:
                                    vs += binds[d].get(sv, [])
                            r[sv] = vs
                    if all(r[n] for n in r) and set(r) == spec.names():
                        recs.append(r)
                out.append((pos, recs))
    return out


def load_pair(late=False):
    from pv.corpus.base import Recorder, load

    tmpl = TMPL_LATE if late else TMPL
    rec = Recorder()
    ns_t, _ = load(tmpl, twin=True, recorder=rec)
    ns_i, _ = load(tmpl)
    return rec, ns_t, ns_i
