"""C06 -- entry/exit, loop, yield, return and error meta-events bracket every path.

The merged stream of real probes on #enter/#exit/#value/#error/#loop_X/#endloop_X/
#yield/#receive (plus a generic probe marking variable events) is compared, on symbolic
inputs and symbolic generator-driver op lists, with the *meta twin* of the same template
(pv/refinst.py: enter/exit in try/finally, the value actually returned on normal
completion, the exception on exceptional completion, per-iteration begin/end in
try/finally, yield/receive around each yield).  Wrapper probes f(!#enter, !!#exit) and
f(!#loop_i, !!#endloop_i) are checked for begin/end pairing.
"""

from __future__ import annotations

import ast

from pv.corpus.templates import BY_NAME, TEMPLATES, generated
from pv.props.c01 import _fn_holder, _observe

PROPERTY = "C06"

META = {
    "level": "model_checking",
    "technique": "bounded symbolic execution (CrossHair/z3) of real meta-variable probes vs an independent meta twin",
    "functions": [
        "ptera.transform.PteraTransformer.delimit/visit_FunctionDef/visit_For/visit_Return/visit_Yield (output executed)",
        "ptera.transform._standard_info", "ptera.interpret.Interactor.interact/exit", "ptera.overlay.proceed.__enter__/__exit__",
        "ptera.probe.Probe._emit/_emit2", "ptera.selector.Call.all_tags", "ptera.tags.enter_tag/exit_tag",
    ],
    "bounds": {
        "quick": {"ints": "unbounded", "trip_counts": "<= 3 (two nested loops <= 2 each)", "generator_driver_ops": "3 of next/send/throw/close"},
        "thorough": {"ints": "unbounded", "trip_counts": "<= 3", "generator_driver_ops": "4 of next/send/throw/close"},
    },
    "out_of_scope": [
        "exit of a generator by garbage collection (object lifetime under the tracer is not the program's; only close() is driven)",
        "#error on close(): events whose exception is GeneratorExit are removed from both streams (the property does not say)",
        "for-loops with tuple targets (the order of the #loop_a/#loop_b pair is unspecified)", "programs outside the catalogue",
    ],
    "assumptions": ["transform executed natively", "meta twin encodes Python's completion semantics (tentative return values are "
                    "superseded by a later return or voided by an exception in finally)"],
}


def _loop_vars(tmpl):
    """Names of simple for-loop targets of the instrumented function (from the template's own AST)."""
    tree = ast.parse(tmpl["src"])
    q = tmpl["twin_funcs"][0].split(".")
    node = tree
    for part in q:
        node = next(n for n in ast.walk(node) if isinstance(n, (ast.FunctionDef, ast.ClassDef)) and n.name == part)
    out = []

    def walk(n):
        for ch in ast.iter_child_nodes(n):
            if isinstance(ch, (ast.FunctionDef, ast.ClassDef, ast.Lambda)):
                continue
            if isinstance(ch, ast.For) and isinstance(ch.target, ast.Name) and ch.target.id not in out:
                out.append(ch.target.id)
            walk(ch)

    walk(node)
    return out


def _local_names(tmpl):
    """Names Python's own symbol table reports as local to the instrumented function."""
    import symtable

    st = symtable.symtable(tmpl["src"], "<tmpl>", "exec")
    for part in tmpl["twin_funcs"][0].split("."):
        st = next(ch for ch in st.get_children() if ch.get_name() == part)
    return {s.get_name() for s in st.get_symbols() if s.is_local()}


def expected_stream(rec, fname, with_binds=True):
    from pv.corpus.base import norm

    out = []
    for e in rec.log():
        fr = rec.acts[e[1]]
        if fr.fname != fname:
            continue
        k = e[0]
        if k == "enter":
            out.append(("enter",))
        elif k == "exit":
            out.append(("exit",))
        elif k == "bind":
            if with_binds:
                out.append(("bind", e[2]))
        elif k == "value":
            out.append(("value", norm(e[2])))
        elif k == "error":
            if not isinstance(e[2], GeneratorExit):
                out.append(("error", norm(e[2])))
        elif k in ("loop", "endloop"):
            out.append((k, e[2]))
        elif k in ("yield", "receive"):
            out.append((k, norm(e[2])))
    return out


def build(case):
    from ptera import probing
    from pv.corpus.base import Recorder, load, norm
    from pv.engine.xsym import pick, require

    p = case["params"]
    tmpl = BY_NAME[p["template"]]
    mode = p.get("mode", "stream")
    L = p.get("L", 3)
    twin = bool(case.get("vacuity_twin"))
    fname = tmpl["funcs"][0].split(".")[-1]
    lvars = _loop_vars(tmpl)
    locals_ = _local_names(tmpl)
    fpb = f"C06:{tmpl['name']}"

    def core(a, b, c, d, ops, vals):
        rec = Recorder()
        ns_t, H_t = load(tmpl, twin=True, recorder=rec)
        _observe(ns_t, H_t, tmpl, (a, b, c, d), ops, vals)
        ns_i, H_i = load(tmpl)
        _, _, selfn = _fn_holder(ns_i, tmpl)
        got = []

        if mode == "stream":
            exp = [e for e in expected_stream(rec, fname) if e[0] != "bind" or e[1] in locals_]

            def on_generic(dct):
                cap = dct["x"]
                n = cap.names[0]
                if n == "#enter":
                    got.append(("enter",))
                elif n == "#exit":
                    got.append(("exit",))
                elif n == "#yield":
                    got.append(("yield", norm(cap.values[0])))
                elif n == "#receive":
                    got.append(("receive", norm(cap.values[0])))
                elif n in locals_:  # externals/closure variables reported at entry are not bindings
                    got.append(("bind", n))

            probes = [(probing(f"{selfn} > $x", env=ns_i, raw=True), on_generic),
                      (probing(f"{selfn} > #value", env=ns_i), lambda dct: got.append(("value", norm(dct["#value"])))),
                      (probing(f"{selfn} > #error", env=ns_i),
                       lambda dct: None if isinstance(dct["#error"], GeneratorExit) else got.append(("error", norm(dct["#error"]))))]
            for v in lvars:
                probes.append((probing(f"{selfn} > #loop_{v}", env=ns_i), lambda dct, v=v: got.append(("loop", v))))
                probes.append((probing(f"{selfn} > #endloop_{v}", env=ns_i), lambda dct, v=v: got.append(("endloop", v))))
        else:  # wrapper probes: begin/end pairing
            exp = [e for e in expected_stream(rec, fname, with_binds=False) if e[0] in ("enter", "exit", "loop", "endloop")]

            def on_wrap(kind_b, kind_e, v=None):
                def cb(dct):
                    w = dct["$wrap"]
                    got.append(((kind_b if w["step"] == "begin" else kind_e),) + ((v,) if v else ()) + (w["id"],))
                return cb

            probes = [(probing(f"{selfn}(!#enter, !!#exit)", env=ns_i), on_wrap("enter", "exit"))]
            for v in lvars:
                probes.append((probing(f"{selfn}(!#loop_{v}, !!#endloop_{v})", env=ns_i), on_wrap("loop", "endloop", v)))

        entered = []
        try:
            for prb, cb in probes:
                prb.__enter__()
                entered.append(prb)
                prb.subscribe(cb)
            _observe(ns_i, H_i, tmpl, (a, b, c, d), ops, vals)
        finally:
            for prb in reversed(entered):
                prb.__exit__(None, None, None)

        if mode != "stream":
            # begin/end with the same id must pair up like brackets
            stack = []
            for ev in got:
                if ev[0] in ("enter", "loop"):
                    stack.append(ev)
                else:
                    require(bool(stack) and stack[-1][-1] == ev[-1] and stack[-1][1:-1] == ev[1:-1],
                            "wrapper probe: end event without its matching begin", {"fp": f"{fpb}:wrap:unbalanced"})
                    stack.pop()
            require(not stack, "wrapper probe: begin event never followed by its end event", {"fp": f"{fpb}:wrap:unclosed"})
            got2 = [ev[:-1] for ev in got]
            if twin:
                require(len(exp) < 4 or got2 != exp, "vacuity twin", {"fp": "twin"})
                return
            require(got2 == exp, "wrapper probes delivered a different begin/end sequence than the activation/iteration history",
                    {"fp": f"{fpb}:wrap:sequence", "got": got2, "exp": exp})
            return

        if twin:
            require(len(exp) < 6 or got != exp, "vacuity twin", {"fp": "twin"})
            return
        # properly nested on the real stream itself
        depth = []
        for ev in got:
            if ev[0] == "enter":
                depth.append("act")
            elif ev[0] == "loop":
                depth.append(("loop", ev[1]))
            elif ev[0] == "endloop":
                require(bool(depth) and depth[-1] == ("loop", ev[1]), "#endloop without matching #loop",
                        {"fp": f"{fpb}:nesting:endloop"})
                depth.pop()
            elif ev[0] == "exit":
                require(bool(depth) and depth[-1] == "act", "#exit while a loop iteration is still open or without #enter",
                        {"fp": f"{fpb}:nesting:exit"})
                depth.pop()
            else:
                require(bool(depth), f"{ev[0]} event outside #enter/#exit", {"fp": f"{fpb}:nesting:outside"})
        # equality with the twin, with a diagnostic class that does not depend on solver values
        if got != exp:
            kinds_g = [e[0] for e in got]
            kinds_e = [e[0] for e in exp]
            if kinds_g != kinds_e:
                i = 0
                while i < min(len(kinds_g), len(kinds_e)) and kinds_g[i] == kinds_e[i]:
                    i += 1
                g = kinds_g[i] if i < len(kinds_g) else "end"
                e = kinds_e[i] if i < len(kinds_e) else "end"
                cls = f"expected-{e}-got-{g}"
            else:
                i = next(j for j in range(len(got)) if got[j] != exp[j])
                cls = f"payload-{got[i][0]}"
            require(False, f"meta-event stream differs from the meta twin ({cls})",
                    {"fp": f"{fpb}:stream:{cls}", "got": got, "exp": exp})

    if tmpl["gen"]:
        if L == 3:
            def h_gen(a: int, b: int, c: int, d: int, o1: int, o2: int, o3: int, s1: int, s2: int, s3: int):
                core(a, b, c, d, [pick(o1, 4), pick(o2, 4), pick(o3, 4)], [s1, s2, s3])
            return h_gen

        def h_gen4(a: int, b: int, c: int, d: int, o1: int, o2: int, o3: int, o4: int,
                   s1: int, s2: int, s3: int, s4: int):
            core(a, b, c, d, [pick(o1, 4), pick(o2, 4), pick(o3, 4), pick(o4, 4)], [s1, s2, s3, s4])
        return h_gen4

    def h(a: int, b: int, c: int, d: int):
        core(a, b, c, d, None, None)

    return h


_SKIP = ("closure_nonlocal",)  # probing works, but nothing new for meta events


def cases(tier, seed):
    th = tier == "thorough"
    L = 4 if th else 3
    cs = []
    for t in TEMPLATES + generated(seed, 40 if th else 8):
        if t["name"] in _SKIP:
            continue
        cs.append({"id": f"{t['name']}:stream", "params": {"template": t["name"], "mode": "stream", "L": L},
                   "budget_s": (1200 if th else 200) if t["gen"] else (300 if th else 90)})
        if _loop_vars(t) or t["gen"] or t["name"] in ("try_paths", "recursion", "plain"):
            cs.append({"id": f"{t['name']}:wrap", "params": {"template": t["name"], "mode": "wrap", "L": L},
                       "budget_s": (1200 if th else 200) if t["gen"] else (300 if th else 90)})
    for name in ("for_loop", "gen_loop", "try_finally_return"):
        cs.append({"id": f"{name}:stream:twin", "params": {"template": name, "mode": "stream", "L": 3},
                   "vacuity_twin": True, "stop_on_refute": True, "budget_s": 60})
    cs.append({"id": "nested_loops:wrap:twin", "params": {"template": "nested_loops", "mode": "wrap", "L": 3},
               "vacuity_twin": True, "stop_on_refute": True, "budget_s": 60})
    return cs
