"""C07 -- total probes emit one complete record per outermost call.

Same symbolic call-tree family as C03.  Focus-free selectors run through
probing(selector, raw=True) (Total accumulators: HandlerCollection.proceed template/fork/
close_at_exit, Total.log/close/leaves/build, Interactor.exit); the reference computes, from
the twin's activation log, one record per *ended* activation of the outermost function with
all values, in order, from activations matched underneath it, and no record when a capture
stayed empty.  Focused selectors forced to total mode: one record per focus binding with the
complete outer values.
"""

from __future__ import annotations

from pv.calltree import CTXVAR, Level, Spec

PROPERTY = "C07"

META = {
    "level": "model_checking",
    "technique": "bounded symbolic execution (CrossHair/z3) of Total accumulators over symbolic call-tree scripts vs an independent record oracle",
    "functions": [
        "ptera.interpret.Total.__init__/accumulator_for/log/leaves/close", "ptera.interpret.BaseAccumulator.fork/build",
        "ptera.interpret.Capture.accum", "ptera.interpret.Interactor.register/exit/to_close",
        "ptera.overlay.HandlerCollection.proceed (is_template / close_at_exit)", "ptera.overlay.proceed.__exit__",
        "ptera.probe.Probe._make_rule/_emit",
    ],
    "bounds": {
        "quick": {"script_length": "<= 4 over {return, call f/g/h, raise}", "selectors": "focus-free selectors up to depth 3 + 3 forced-total"},
        "thorough": {"script_length": "<= 5 over {return, call f, call g, call h, raise}", "selectors": "as quick"},
    },
    "out_of_scope": ["order of the records emitted at one and the same exit (forced total); compared as a multiset",
                     "call trees beyond the script bound", "generators"],
    "assumptions": ["transform executed natively", "each value appears once per record however many ways the chain embeds "
                    "(literal reading of 'all the values it took ... in the order they were taken')"],
}


def L(fn, ctx=True, sibs=()):
    return Level(fn, [CTXVAR[fn]] if ctx else [], sibs)


TOTAL = {
    "f(a)": Spec([L("f")], None), "f(a,x)": Spec([Level("f", ["a", "x"])], None),
    "f(a,g(b))": Spec([L("f"), L("g")], None), "g(b,f(a))": Spec([L("g"), L("f")], None),
    "f(a,g(b),h(c))": Spec([Level("f", ["a"], [("h", "c")]), L("g")], None),
    "f(a,g(b,h(c)))": Spec([L("f"), L("g"), L("h")], None),
    "f(g(b))": Spec([L("f", 0), L("g")], None), "h(c,g(b))": Spec([L("h"), L("g")], None),
    "f(a,f(x))": Spec([L("f"), Level("f", ["x"])], None),
    "g(b,g(x))": Spec([L("g"), Level("g", ["x"])], None),
    "f(a,h(c,f(x)))": Spec([L("f"), L("h"), Level("f", ["x"])], None),
}
FORCED = {
    "f(a)>x": Spec([L("f")]), "f(a)>g>x": Spec([L("f"), L("g", 0)]), "f(a)>g(b)>x": Spec([L("f"), L("g")]),
    "g(b)>h(c)>x": Spec([L("g"), L("h")]),
}


def build(case):
    from ptera import probing
    from pv.calltree import Env, expected_total, expected_total_focused, load_pair
    from pv.engine.xsym import pick, require

    p = case["params"]
    forced = p["kind"] == "forced"
    spec = (FORCED if forced else TOTAL)[p["spec"]]
    alpha = p["alpha"]
    twin = bool(case.get("vacuity_twin"))
    fpb = f"C07:{p['kind']}:{p['spec']}"

    def core(base, script):
        rec, ns_t, ns_i = load_pair()
        ns_t["drive"](Env(ns_t, script, base, alpha, pick))
        got = []
        text = spec.text()
        with probing(text, env=ns_i, raw=True, probe_type="total" if forced else None) as prb:
            prb.subscribe(lambda d: got.append({k: list(c.values) for k, c in d.items()}))
            ns_i["drive"](Env(ns_i, script, base, alpha, pick))
        if forced:
            groups = [recs for _, recs in expected_total_focused(rec, spec)]
        else:
            groups = [[r] for _, r in expected_total(rec, spec)]
        total = sum(len(g) for g in groups)
        if twin:
            require(not (total >= 2 and len(got) == total), "vacuity twin", {"fp": "twin"})
            return
        require(len(got) == total, f"{len(got)} records delivered, expected {total} (one per ended outermost call in which "
                "every captured variable was bound" + ("; per focus binding" if forced else "") + ")",
                {"fp": f"{fpb}:count:{'missing' if len(got) < total else 'extra'}", "selector": text})
        i = 0
        for grp in groups:
            chunk = got[i:i + len(grp)]
            i += len(grp)
            rest = list(grp)
            for r in chunk:
                hit = None
                for j, ex in enumerate(rest):
                    if set(ex) == set(r) and all(len(r[k]) == len(ex[k]) and all(x == y for x, y in zip(r[k], ex[k])) for k in ex):
                        hit = j
                        break
                if hit is None and len(rest) == 1 and set(rest[0]) == set(r):
                    ex = rest[0]
                    k = next(k for k in ex if not (len(r[k]) == len(ex[k]) and all(x == y for x, y in zip(r[k], ex[k]))))
                    cls = "duplicated-values" if len(r[k]) > len(ex[k]) else ("missing-values" if len(r[k]) < len(ex[k]) else "wrong-values")
                    require(False, f"record differs in capture `{k}`: {cls}", {"fp": f"{fpb}:{cls}", "selector": text})
                require(hit is not None, "a record does not hold exactly the values taken under its outermost call",
                        {"fp": f"{fpb}:wrong-record", "selector": text})
                rest.pop(hit)

    n = p["n"]
    from pv.engine.xsym import int_harness

    return int_harness(lambda base, *sc: core(base, list(sc)), ["base"] + [f"s{i}" for i in range(n)])


def cases(tier, seed):
    th = tier == "thorough"
    cs = []
    for kind, table in (("total", TOTAL), ("forced", FORCED)):
        for name in table:
            cs.append({"id": f"{kind}:{name}", "params": {"kind": kind, "spec": name, "n": 5 if th else 4, "alpha": 5},
                       "budget_s": 3000 if th else 200, "per_path_s": 30})
    cs.append({"id": "total:f(a,g(b)):twin", "params": {"kind": "total", "spec": "f(a,g(b))", "n": 4, "alpha": 4},
               "vacuity_twin": True, "stop_on_refute": True, "budget_s": 100})
    cs.append({"id": "forced:f(a)>g>x:twin", "params": {"kind": "forced", "spec": "f(a)>g>x", "n": 4, "alpha": 4},
               "vacuity_twin": True, "stop_on_refute": True, "budget_s": 100})
    return cs
