"""C05 -- probes deliver exactly-once while active and leave no trace once deactivated.

(1) History harness: a symbolic operation list over {toggle global probe p0 / p1 (any
    order, fresh instance each activation), enter / leave normally / leave by exception a
    with-probe p2, call fa(v), call fb(v)} with overlapping selectors is executed on the real
    code; after every step each active probe must have received exactly the events of that
    step (closed-form reference), each inactive one none; whenever no probe is active both
    functions run their original code objects, no handler is installed in the context and
    all instrumentation counters are zero.
(2) Inductive step: from an *arbitrary* consistent state of the real
    SyncedStackedTransforms (symbolic multiplicities per capture subset, key presence
    symbolic) one push/pop of any subset preserves the counter invariant and installs
    exactly the code variant for the union of active capture sets (original code iff none)
    -- covers histories of any length on one function.
"""

from __future__ import annotations

PROPERTY = "C05"

META = {
    "level": "model_checking",
    "technique": "bounded symbolic execution (CrossHair/z3) of activation/deactivation histories + inductive step over symbolic instrumentation counters",
    "functions": [
        "ptera.probe.Probe._enter/_exit/activate/deactivate/_install_tooling/_uninstall_tooling", "ptera.probe.global_probe/global_probes",
        "ptera.overlay.BaseOverlay.__enter__/__exit__", "ptera.overlay.autotool/_tooler/_untooler", "ptera.overlay.HandlerCollection.*",
        "ptera.transform.StackedTransforms.push/pop/get", "ptera.transform.SyncedStackedTransforms.push/pop/_apply",
        "ptera.transform.TransformSet.transform_for/_register", "ptera.selector.Call.wrap_functions",
    ],
    "bounds": {
        "quick": {"history_length": "<= 5 operations over 7 kinds; <= 4 over {toggle p0, 3 refused activations, 2 calls}", "call_arguments": "base + i, base an unbounded Int",
                  "inductive_step": "multiplicities unbounded (z3 Int >= 0), 3-capture universe, 8 subsets, push and pop"},
        "thorough": {"history_length": "<= 6; <= 5 with refused activations", "call_arguments": "as quick", "inductive_step": "as quick"},
    },
    "out_of_scope": ["more than three probes / two functions", "with-blocks that are not properly nested among themselves "
                     "(Python cannot express them)", "threads (C08)", "generators (C09)"],
    "assumptions": ["transform executed natively", "each path runs in a copy of the context (contextvars.copy_context) so that one "
                    "path's handler state cannot leak into the next"],
}

SRC = '''
def fa(v):
    x = v
    y = x + 1
    return y

def fb(v):
    z = v * 2
    return fa(z)
'''
TMPL = {"name": "c05", "src": SRC, "funcs": ["fa"], "twin_funcs": ["fa", "fb"], "gen": False}
SELECTORS = ["fa > x", "fa(x) > y", "fb > fa > x"]
# activations that must be refused: missing variable; missing variable at the end of a path (the outer function is fine);
# a probe whose first selector is fine and whose second is not
REFUSED = [["fa > nosuch"], ["fb > fa > nosuch"], ["fa > x", "fb(z) > nosuch"]]


# second family: probes on different attributes of one object, and a tag-restricted vs a plain capture of one variable
# (selectors whose capture sets differ only in the attribute / the category)
SRC_ATTR = '''
def fa(v):
    o = Obj(val=0)
    o.p = v
    w: tag.T = v + 2
    o.q = v + 1
    w = v + 3
    return o.q

def fb(v):
    z = v * 2
    return fa(z)
'''
TMPL_ATTR = {"name": "c05_attr", "src": "from ptera import tag\n" + SRC_ATTR, "funcs": ["fa"], "twin_funcs": ["fa", "fb"], "gen": False}
SELECTORS_ATTR = ["fa > o.p", "fa > o.q", "fb > fa > o.p"]
SELECTORS_TAG = ["fa > w:@T", "fa > w", "fb > fa > w:@T"]


def expected_events(pidx, op, v, family="vars"):
    """Events probe `pidx` must receive for a call step."""
    z = v if op == 5 else v * 2  # fb(v) calls fa(2v)
    path = [] if op == 5 else None
    if family == "attr":
        return [[{"o.p": z}], [{"o.q": z + 1}], [{"o.p": z}] if path is None else path][pidx]
    if family == "tag":
        return [[{"w": z + 2}], [{"w": z + 2}, {"w": z + 3}], [{"w": z + 2}] if path is None else path][pidx]
    return [[{"x": z}], [{"x": z, "y": z + 1}], [{"x": z}] if path is None else path][pidx]


def build(case):
    import contextvars

    from ptera import probing
    from ptera.overlay import HandlerCollection
    from crosshair.tracers import NoTracing
    from ptera.probe import global_probes
    from ptera.selector import SelectorError, select
    from pv.corpus.base import load
    from pv.engine.xsym import assume, pick, require

    p = case["params"]
    twin = bool(case.get("vacuity_twin"))

    if p["kind"] == "history":
        first = p.get("first")  # shard: values of the first two operations
        second = p.get("second")
        alphabet = p.get("alphabet") or list(range(8))
        family = p.get("family", "vars")
        TM, SELS = {"vars": (TMPL, SELECTORS), "attr": (TMPL_ATTR, SELECTORS_ATTR), "tag": (TMPL_ATTR, SELECTORS_TAG)}[family]

        def run(base, ops):
            ns, _ = load(TM)
            fa, fb = ns["fa"], ns["fb"]
            orig = {"fa": fa.__code__, "fb": fb.__code__}
            probes = [None, None, None]
            lists = [[], [], []]
            nact = 0

            def quiescent(where):
                require(fa.__code__ is orig["fa"] and fb.__code__ is orig["fb"],
                        "no probe is active but a function does not run its original code object",
                        {"fp": "C05:history:code-not-restored", "at": where})
                cur = HandlerCollection.current.get()
                require(cur is None or not cur.handler_pairs, "no probe is active but handlers remain installed in the context",
                        {"fp": "C05:history:handlers-left", "at": where})
                for fn in (fa, fb):
                    st = getattr(fn, "__ptera_stack__", None)
                    if st is not None:
                        require(st.instrument_count == 0 and all(c == 0 for c in st.captures.values()),
                                "no probe is active but an instrumentation count is left over",
                                {"fp": "C05:history:count-left", "at": where})

            def activate(i):
                with NoTracing():  # parsing/resolving the (concrete) selector text is not what is checked here
                    sel = select(SELS[i], env=ns)
                probes[i] = probing(sel)
                probes[i].__enter__()
                probes[i].subscribe(lambda d, i=i: lists[i].append(dict(d)))

            def deactivate(i, exc=False):
                pr, probes[i] = probes[i], None
                if exc:
                    e = ValueError("leaving by exception")
                    pr.__exit__(ValueError, e, None)
                else:
                    pr.__exit__(None, None, None)

            try:
                quiescent("start")
                for step, opsym in enumerate(ops):
                    op = alphabet[pick(opsym, len(alphabet))]
                    if step == 0 and first is not None:
                        assume(op == first)
                    if step == 1 and second is not None:
                        assume(op == second)
                    if op == 7:  # end of history
                        break
                    before = [len(x) for x in lists]
                    exp = [[], [], []]
                    if op in (0, 1):
                        if probes[op] is None:
                            activate(op)
                        else:
                            deactivate(op)
                    elif op == 2:
                        assume(probes[2] is None)
                        activate(2)
                    elif op in (3, 4):
                        assume(probes[2] is not None)
                        deactivate(2, exc=(op == 4))
                    elif op in (8, 9, 10):
                        # an activation that must be refused: it is not an activation, so nothing may change
                        def counts():
                            return [(getattr(fn, "__ptera_stack__", None) and fn.__ptera_stack__.instrument_count) or 0
                                    for fn in (fa, fb)]
                        with NoTracing():
                            c0, codes0 = counts(), (fa.__code__, fb.__code__)
                            try:
                                bad = probing(*[select(t, env=ns) for t in REFUSED[op - 8]])
                                bad.__enter__()
                                outcome = "activated"
                                bad.__exit__(None, None, None)
                            except (SelectorError, TypeError):
                                outcome = "refused"
                            except Exception as e:  # noqa
                                outcome = type(e).__name__
                            c1, codes1 = counts(), (fa.__code__, fb.__code__)
                        if not twin:
                            require(outcome == "refused", f"activation of {REFUSED[op - 8]} was not refused: {outcome}",
                                    {"fp": f"C05:history:refusal:{outcome}"})
                            # (which code variant serves the probes that remain active is not fixed by the property; that
                            # they keep receiving their events, and that the original code is back when none is active, is
                            # checked by the following steps and by quiescent())
                            require(c0 == c1 and (c0 != [0, 0] or (codes0[0] is codes1[0] and codes0[1] is codes1[1])),
                                    "a refused activation changed the instrumentation of a function "
                                    f"(counts {c0} -> {c1})", {"fp": "C05:history:refusal-leaves-tooling", "selectors": REFUSED[op - 8]})
                    else:
                        v = base + step
                        rv = (fa if op == 5 else fb)(v)
                        require(rv == (v + 1 if op == 5 else v * 2 + 1), "call returned a wrong value",
                                {"fp": "C05:history:return-value"})
                        for i in range(3):
                            if probes[i] is not None:
                                exp[i] = expected_events(i, op, v, family)
                        nact += 1
                    for i in range(3):
                        new = lists[i][before[i]:]
                        if twin:
                            continue
                        if probes[i] is None and op in (5, 6):
                            require(len(new) == 0, "a probe that is not active received an event",
                                    {"fp": "C05:history:inactive-received"})
                        else:
                            require(len(new) == len(exp[i]),
                                    "an active probe did not receive each matching event exactly once "
                                    f"(got {len(new)}, expected {len(exp[i])})",
                                    {"fp": f"C05:history:active-{'lost' if len(new) < len(exp[i]) else 'duplicated'}",
                                     "probe": SELS[i]})
                            for g, e in zip(new, exp[i]):
                                require(set(g) == set(e) and all(g[k] == e[k] for k in e), "event with wrong content",
                                        {"fp": "C05:history:content", "probe": SELS[i]})
                    if all(pr is None for pr in probes) and not twin:
                        quiescent(f"after step {step}")
                if twin:
                    require(not (nact >= 1 and sum(len(x) for x in lists) >= 2), "vacuity twin", {"fp": "twin"})
            finally:
                for i in (2, 1, 0):
                    if probes[i] is not None:
                        try:
                            probes[i].__exit__(None, None, None)
                        except Exception:
                            pass
                global_probes.clear()

        n = p["n"]

        def wrap(base, ops):
            contextvars.copy_context().run(run, base, ops)

        from pv.engine.xsym import int_harness

        return int_harness(lambda base, *ops: wrap(base, list(ops)), ["base"] + [f"o{i}" for i in range(n)])

    # ------------------------------------------------------------------ inductive step
    from ptera.overlay import proceed
    from ptera.selector import Element
    from ptera.transform import SyncedStackedTransforms

    ns, _ = load({"name": "c05_ind", "src": "def f(a, b):\n    c = a + b\n    return c\n", "funcs": ["f"]})
    fn = ns["f"]
    orig_code = fn.__code__
    st = SyncedStackedTransforms(fn, proceed=proceed)
    E = [Element(name="a"), Element(name="b"), Element(name="c")]
    SUBSETS = [tuple(E[i] for i in range(3) if (mask >> i) & 1) for mask in range(8)]
    # pre-compute the 8 code variants natively (the real transform_for; cached in the TransformSet)
    variant = {}
    for mask in range(1, 8):
        variant[frozenset(SUBSETS[mask])] = st.tset.transform_for(SUBSETS[mask])[1]

    def h_ind(m0: int, m1: int, m2: int, m3: int, m4: int, m5: int, m6: int, m7: int,
              present: int, opsel: int, subsel: int):
        m = [m0, m1, m2, m3, m4, m5, m6, m7]
        for x in m:
            assume(x >= 0)
        pres = pick(present, 8)  # which zero-count keys exist in the Counter (a key exists once it was ever pushed)
        op = pick(opsel, 2)
        k = pick(subsel, 8)
        # ---- arbitrary consistent pre-state of the REAL object
        st.instrument_count = sum(m)
        st.captures.clear()
        for i in range(3):
            cnt = sum(m[mask] for mask in range(8) if (mask >> i) & 1)
            if cnt > 0 or (pres >> i) & 1:
                st.captures[E[i]] = cnt
        st._apply(fn)  # representation invariant: installed code = variant of the active union
        if op == 0:
            st.push(SUBSETS[k])
            m[k] = m[k] + 1
        else:
            assume(m[k] >= 1)
            st.pop(SUBSETS[k])
            m[k] = m[k] - 1
        total = sum(m)
        if twin:
            require(not (total >= 2), "vacuity twin", {"fp": "twin"})
            return
        require(st.instrument_count == total, "instrument_count is not the number of active capture sets",
                {"fp": "C05:inductive:instrument_count"})
        union = set()
        for i in range(3):
            cnt = sum(m[mask] for mask in range(8) if (mask >> i) & 1)
            require(st.captures[E[i]] == cnt, "per-capture reference count is wrong", {"fp": "C05:inductive:capture-count"})
            if cnt > 0:
                union.add(E[i])
        if total == 0:
            require(fn.__code__ is orig_code, "no active capture set but the original code is not installed",
                    {"fp": "C05:inductive:code-not-original"})
        else:
            want = variant.get(frozenset(union)) if union else st.tset.transform_for(())[1]
            require(fn.__code__ is want, "installed code is not the variant for the union of the active capture sets",
                    {"fp": "C05:inductive:wrong-variant"})

    return h_ind


def cases(tier, seed):
    th = tier == "thorough"
    n = 6 if th else 5
    cs = []
    for first in range(7):
        for second in range(8):
            if (first in (3, 4)) or (first == 2 and second == 2) or (first != 2 and second in (3, 4)):
                continue  # leaving a with-probe that is not open / entering it twice: not a history
            cs.append({"id": f"history:ops={first},{second}", "params": {"kind": "history", "n": n, "first": first, "second": second},
                       "budget_s": 5000 if th else 280, "per_path_s": 30})
    # histories with refused activation attempts (ops 8-10) between toggles of p0 and calls
    alpha = [0, 8, 9, 10, 5, 6, 7]
    for first in (0, 8, 9, 10, 5, 6):
        cs.append({"id": f"refusal:first={first}", "params": {"kind": "history", "n": 5 if th else 4, "first": first, "alphabet": alpha},
                   "budget_s": 3000 if th else 280, "per_path_s": 30})
    # probes whose capture sets differ only in the attribute of one object / in the category of one variable
    for fam in ("attr", "tag"):
        for first in (0, 1, 2, 5, 6):
            cs.append({"id": f"{fam}:first={first}", "params": {"kind": "history", "n": 5 if th else 4, "first": first, "family": fam},
                       "budget_s": 3000 if th else 280, "per_path_s": 30})
    cs.append({"id": "history:twin", "params": {"kind": "history", "n": 5, "first": 0}, "vacuity_twin": True,
               "stop_on_refute": True, "budget_s": 100})
    cs.append({"id": "inductive", "params": {"kind": "inductive"}, "budget_s": 1200 if th else 280})
    cs.append({"id": "inductive:twin", "params": {"kind": "inductive"}, "vacuity_twin": True, "stop_on_refute": True,
               "budget_s": 100})
    return cs
