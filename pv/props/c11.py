"""C11 -- tag selectors capture exactly the bindings that carry the tag.

(1) Tag algebra: symbolic lists of tag indices (order and repetition free) go through the
    real get_tags / Tag.__and__ / TagSet.__eq__ / match_tag: equal as sets <=> equal TagSets,
    match_tag(t, s) <=> t in s, string form '@A & @B' == object form.
(2) Placement: a function whose two parameters, three annotated assignments, one annotated
    re-binding of a parameter and return annotation are chosen by a symbolic vector among
    {none, "@A", "@B & @C & @A", tag.B, tag.A & tag.B, int}; the source is generated from
    the vector and probed with $x:@T, *:@T, v:@T, $x and a function-position tag; the raw
    stream (capture.name, value) must be exactly the bindings annotated with T, and (spy on
    Interactor.interact) only the selected bindings are instrumented.
"""

from __future__ import annotations

PROPERTY = "C11"

META = {
    "level": "model_checking",
    "technique": "bounded symbolic execution (CrossHair/z3): tag algebra over symbolic index lists; placement as a solver-enumerated choice vector",
    "functions": [
        "ptera.tags.Tag.__and__/TagSet.__init__/__eq__/match_tag/get_tags/_TagFactory", "ptera.selector.check_element/make_class/_resolve",
        "ptera.transform.PteraTransformer._ann/_evaluate/should_instrument/annotated", "ptera.overlay.fits_selector",
        "ptera.interpret.WorkingFrame.__init__ (category check)/Capture.name", "ptera.selector.Call.problems",
    ],
    "bounds": {"quick": {"tag_lists": "two lists of <= 3 indices over {A,B,C}", "annotation_vector": "216 combinations "
                         "(3 free slots x 6 choices, 3 derived slots), 3 tags, 6 selector shapes", "values": "unbounded Int"},
               "thorough": {"tag_lists": "as quick", "annotation_vector": "as quick; 4 free slots (1296 vectors) for $x:@T and *:@T"}},
    "out_of_scope": ["string-form return annotations (-> \"@A\"): the property names the string form only for parameters and "
                     "annotated assignments", "annotations that are neither tags nor plain types", "tag alphabets larger than 3"],
    "assumptions": ["transform executed natively; the generated source is registered in linecache",
                    "nothing arithmetic is decided in part (2): the solver enumerates the finite choice vector and certifies exhaustion"],
}

CHOICES = [
    ("", frozenset()), ('"@A"', frozenset("A")), ('"@B & @C & @A"', frozenset("ABC")), ("tag.B", frozenset("B")),
    ("tag.A & tag.B", frozenset("AB")), ("int", frozenset()),
]


def gen_source(vec, ret):
    a0, a1, a2, a3, a4, a5 = [CHOICES[i][0] for i in vec]
    ann = lambda a: (f": {a}" if a else "")  # noqa: E731
    r = f" -> {CHOICES[ret][0]}" if CHOICES[ret][0] and not CHOICES[ret][0].startswith('"') else ""
    src = f"""
def f(p{ann(a0)}, q{ann(a1)}){r}:
    u{ann(a2)} = p + 1
    v{ann(a3)} = q + 2
    w{ann(a4)} = u + v
    u = w + 3
    p{ann(a5)} = u + 4
    return p
"""
    # binding history: (name, tags, value function of (P, Q))
    hist = [
        ("p", CHOICES[vec[0]][1], lambda P, Q: P), ("q", CHOICES[vec[1]][1], lambda P, Q: Q),
        ("u", CHOICES[vec[2]][1], lambda P, Q: P + 1), ("v", CHOICES[vec[3]][1], lambda P, Q: Q + 2),
        ("w", CHOICES[vec[4]][1], lambda P, Q: P + 1 + Q + 2), ("u", frozenset(), lambda P, Q: P + Q + 6),
        ("p", CHOICES[vec[5]][1], lambda P, Q: P + Q + 10),
    ]
    rtags = CHOICES[ret][1] if r else frozenset()
    return src, hist, rtags


def build(case):
    import contextvars

    from crosshair.tracers import NoTracing
    from ptera import probing, tag
    from ptera.interpret import Interactor
    from ptera.probe import global_probes
    from ptera.selector import select
    from ptera.tags import TagSet, get_tags, match_tag
    from pv.engine.xsym import assume, int_harness, pick, require
    from pv.refinst import load_source

    p = case["params"]
    twin = bool(case.get("vacuity_twin"))

    if p["kind"] == "algebra":
        n = p["n"]
        TAGS = [tag.A, tag.B, tag.C]
        NAMES = "ABC"

        def run(*idx):
            la = [pick(i, 4) for i in idx[:n]]  # 3 == "absent" (lists of varying length)
            lb = [pick(i, 4) for i in idx[n:]]
            la = [i for i in la if i < 3]
            lb = [i for i in lb if i < 3]
            assume(len(la) >= 1 and len(lb) >= 1)

            def objform(lst):
                acc = TAGS[lst[0]]
                for i in lst[1:]:
                    acc = acc & TAGS[i]
                return acc

            def strform(lst):
                return get_tags(*[NAMES[i] for i in lst])

            A, B = objform(la), objform(lb)
            sa, sb = set(la), set(lb)

            def as_set(t):
                return set(t.members) if isinstance(t, TagSet) else {t}

            if twin:
                require(not (len(sa) >= 2 and as_set(A) == as_set(B)), "vacuity twin", {"fp": "twin"})
                return
            require(as_set(A) == {TAGS[i] for i in sa}, "& does not build the set of its operands", {"fp": "C11:algebra:and"})
            if len(sa) >= 2 and len(sb) >= 2:
                require((A == B) == (sa == sb), "tag sets are not compared as sets (order/repetition of & matters)",
                        {"fp": "C11:algebra:tagset-eq"})
            for t in range(3):
                require(bool(match_tag(TAGS[t], A)) == (t in sa), "match_tag(t, s) is not membership",
                        {"fp": "C11:algebra:match_tag"})
            S = strform(la)
            require(as_set(S) == as_set(A) and (len(sa) < 2 or len(la) < 2 or S == A), "string form and object form of a tag set differ",
                    {"fp": "C11:algebra:string-form"})
            require(match_tag(None, A) is True and not match_tag(TAGS[0], None), "match_tag with None is wrong",
                    {"fp": "C11:algebra:none"})

        return int_harness(run, [f"a{i}" for i in range(n)] + [f"b{i}" for i in range(n)])

    # ---------------------------------------------------------------- placement
    shape = p["shape"]
    also_all = shape.endswith("+all")  # a second, unrestricted probe instruments every binding of the function
    via_tooled = shape.endswith("+tooled")  # @tooled function (everything instrumented, nobody else listening) + plain Overlay
    shape = shape.replace("+all", "").replace("+tooled", "")
    free = p["free"]  # number of free slots (3 quick, 4 thorough)
    T = p["tag"]

    def run(P, Q, c0, c1, c2, c3, cr):
        i0, i5, i2 = pick(c0, 6), pick(c1, 6), pick(c2, 6)
        i3 = pick(c3, 6) if free >= 4 else (i0 + 2) % 6
        i1, i4 = (i2 + 1) % 6, (i5 + 3) % 6
        ret = pick(cr, 6) if shape == "fntag" else 0
        if shape != "fntag":
            assume(cr == 0)
        if free < 4:
            assume(c3 == 0)
        vec = [i0, i1, i2, i3, i4, i5]
        src, hist, rtags = gen_source(vec, ret)
        with NoTracing():
            ns = load_source(src, modname="pv_c11", extra={"tag": tag})
        tg = getattr(tag, T)
        carried = [(n, fv(P, Q)) for n, tags, fv in hist if T in tags]
        if shape == "generic":
            text, exp = f"f > $x:@{T}", carried
        elif shape == "star":
            text, exp = f"f > *:@{T}", carried
        elif shape.startswith("named_"):
            v = shape.split("_")[1]
            text, exp = f"f > {v}:@{T}", [(n, val) for n, val in carried if n == v]
        elif shape == "untagged":
            text, exp = "f > $x", [(n, fv(P, Q)) for n, tags, fv in hist]
        elif shape == "fntag":
            text = f"f:@{T} > w"
            exp = [("w", P + 1 + Q + 2)] if T in rtags else []
        else:
            raise ValueError(shape)
        fpb = f"C11:{shape}" + ("+all" if also_all else "") + ("+tooled" if via_tooled else "")
        got, spy = [], []
        orig_interact = Interactor.interact

        def spying(self, varname, key, category, value, overridable):
            spy.append(varname)
            return orig_interact(self, varname, key, category, value, overridable)

        def on(d):
            (cap,) = [c for c in d.values()]
            got.append((cap.names[0], cap.values[0]))

        pr = other = None
        try:
            with NoTracing():
                try:
                    if also_all:
                        other = probing(select("f > $z", env=ns))
                        other.__enter__()
                    if via_tooled:
                        from ptera import tooled
                        from ptera.interpret import Immediate
                        from ptera.overlay import BaseOverlay
                        from ptera.selector import verify

                        ns["f"] = tooled(ns["f"])
                        rsel = verify(select(text, env=ns))
                        pr = BaseOverlay(Immediate(rsel, lambda caps: on(caps)))
                    else:
                        pr = probing(select(text, env=ns), raw=True)
                    pr.__enter__()
                    err = None
                except Exception as e:  # noqa
                    err, pr = e, None
            if err is not None:
                # refused at activation: legitimate iff no binding can match (named/generic tag selectors)
                if twin:
                    return
                refusable = shape in ("generic", "star") or shape.startswith("named_")
                require(refusable and not exp and type(err).__name__ == "SelectorError",
                        f"activation failed although a binding carries the tag: {type(err).__name__}",
                        {"fp": f"{fpb}:activation:{type(err).__name__}"})
                return

            if not via_tooled:
                pr.subscribe(on)
            Interactor.interact = spying
            try:
                rv = ns["f"](P, Q)
            finally:
                Interactor.interact = orig_interact
            require(rv == P + Q + 10, "call returned a wrong value", {"fp": f"{fpb}:return-value"})
            if shape == "untagged":
                got2 = [(n, v) for n, v in got if n in ("p", "q", "u", "v", "w")]
            else:
                got2 = got
            if twin:
                require(not (len(exp) >= 2 and len(got2) == len(exp)), "vacuity twin", {"fp": "twin"})
                return
            if len(got2) != len(exp) or any(a[0] != b[0] for a, b in zip(got2, exp)):
                gn, en = [a[0] for a in got2], [b[0] for b in exp]
                extra = [n for n in gn if gn.count(n) > en.count(n)]
                cls = "captured-binding-without-the-tag" if extra else "missed-binding-with-the-tag"
                require(False, f"{text}: captured {gn}, bindings carrying the tag are {en}", {"fp": f"{fpb}:{cls}"})
            for a, b in zip(got2, exp):
                require(a[1] == b[1], "captured value differs from the value bound", {"fp": f"{fpb}:value"})
            if shape not in ("untagged", "fntag") and not also_all and not via_tooled:
                inst = [n for n in spy if not n.startswith("#")]
                en = [b[0] for b in exp]
                require(inst == en, f"bindings other than the selected ones were instrumented: {inst} vs {en}",
                        {"fp": f"{fpb}:instrumented-{'more' if len(inst) > len(en) else 'other'}"})
        finally:
            with NoTracing():
                for x in (pr, other):
                    if x is not None:
                        try:
                            x.__exit__(None, None, None)
                        except Exception:
                            pass
                global_probes.clear()

    def wrap(*a):
        contextvars.copy_context().run(run, *a)

    return int_harness(wrap, ["P", "Q", "c0", "c1", "c2", "c3", "cr"])


def cases(tier, seed):
    th = tier == "thorough"
    cs = [{"id": "algebra", "params": {"kind": "algebra", "n": 3}, "budget_s": 3000 if th else 250},
          {"id": "algebra:twin", "params": {"kind": "algebra", "n": 3}, "vacuity_twin": True, "stop_on_refute": True, "budget_s": 60}]
    for shape in ("generic", "star", "named_p", "named_u", "named_w", "untagged", "fntag", "generic+all", "star+all", "named_u+all",
                  "named_p+all", "generic+tooled", "named_p+tooled", "named_u+tooled"):
        for T in "ABC":
            if shape == "untagged" and T != "A":
                continue
            cs.append({"id": f"place:{shape}:{T}", "params": {"kind": "place", "shape": shape, "tag": T, "free": 4 if (th and shape in ("generic", "star")) else 3},
                       "budget_s": 3000 if th else 250})
    cs.append({"id": "place:generic:A:twin", "params": {"kind": "place", "shape": "generic", "tag": "A", "free": 3},
               "vacuity_twin": True, "stop_on_refute": True, "budget_s": 60})
    return cs
