"""C18 -- malformed selectors are rejected with a syntax or selector error.

(Z) For each regex of the live selector lexer, z3's regex theory shows that the empty
    string is not in its language, so every iteration of Lexer.__call__ consumes at least
    one character: the lexer terminates on every string (unbounded).
(X1) The real Lexer.__call__ is executed on a symbolic str (bounded length, all of
    Unicode): it terminates and its token values concatenate back to the input minus
    whitespace.
(X2) Token sequences -- a symbolic index list into a 30-token alphabet with symbolic gaps
    ('' or ' ') -- and grammar-shaped templates with symbolic operand holes go through
    parse(), select(env) and probing(...).__enter__(): each must return or raise
    SyntaxError (with an offset), SelectorError or the documented TypeError; selectors with an
    unknown meta-variable, a second-focus mark without a first, or no focus where
    overriding requires one must be refused by activation at the latest.
"""

from __future__ import annotations

PROPERTY = "C18"

META = {
    "level": "model_checking",
    "technique": "z3 regex-emptiness queries on the live lexer regexes; CrossHair symbolic str through the real lexer; "
                 "solver-enumerated token/choice vectors through the real parser/evaluator/select/probing",
    "functions": [
        "ptera.opparse.Lexer.__call__", "ptera.opparse.Parser.process/finalize", "ptera.opparse.OperatorPrecedenceTower.resolve/__call__",
        "ptera.opparse.ASTNode/Token/Location.syntax_error", "ptera.selector.Evaluator.__call__ and every registered action",
        "ptera.selector.parse/_select/select/_resolve/dict_resolver/verify", "ptera.selector.Call.problems",
        "ptera.probe.Probe.__init__/_make_emitter/_make_rule/_enter", "ptera.overlay.autotool/_tooler",
    ],
    "bounds": {
        "quick": {"lexer_symbolic_str": "len <= 2, all of Unicode", "token_sequences": "<= 3 tokens over a 20-token alphabet (one per token class), "
                  "each gap '' or ' '", "shaped_templates": "14 templates x 2 operand holes over 9 operands", "regex_queries": "unbounded strings"},
        "thorough": {"lexer_symbolic_str": "len <= 3", "token_sequences": "<= 3 tokens over the 30-token alphabet with gaps; <= 4 tokens over the 20-token alphabet (gaps ' ' only)",
                     "shaped_templates": "as quick with 3 holes where the template has them"},
    },
    "out_of_scope": ["strings longer than the token bound that are not instances of a shaped template or of a word template "
                     "(one word of <= 3 (quick) / 4 (thorough) characters over 10 character classes in 8 evaluated positions)", "identifiers / string "
                     "literals as symbolic text beyond the lexer-only sub-check", "absolute /module/function references",
                     "\\\\s is modelled as ASCII whitespace in the regex queries (word-boundary assertions dropped: over-approximation, "
                     "sound for the emptiness question)"],
    "assumptions": ["in (X2) the strings are concrete once the solver has chosen the vector, so parse/select/probing run natively; "
                    "nothing arithmetic is decided there: the solver enumerates the finite choice space and certifies exhaustion"],
}

ALPHABET = ["f", "g", "x", "y", "*", "#value", "#bad", "#loop_x", "@T", "1", "nofn", "f.x", ">", ">>", "!", "!!", "$", ":", "=", "~",
            "as", ",", "(", ")", "[", "]", "{", "}", "'s'", "%"]
# quick tier: the structurally distinct tokens (one word per class, every operator class, one bracket pair)
QUICK = ["f", "x", "*", "#bad", "@T", "1", "f.x", ">", "!", "!!", "$", ":", "=", "as", ",", "(", ")", "[", "'s'", "%"]
OPERANDS = ["x", "g(y)", "f > x", "x:@T", "*", "$z", "(x, y)", "!x", "x as w"]
SHAPES = [
    "f > ({A}, {B})", "{A} as ({B})", "$({A})", "f(!({A}))", "f(!!({A}))", "f({A} {B})", "f(({A})", "f({A}))", "f > {A} > {B}",
    "f({A}) as {B}", "f({A}, {B}) = {A}", "f({A}:{B})", "f({A}~{B})", "{A}({B})",
    "{A}, {B}", "({A}, {B}), {A}", "(({A}, {B}), {A}), x", "{A}, ({B}, {A})", "f(({A}, {B}), {A})",
    "", " ", "f,f", "f > g, x", "(f)", "f()", "f(x)(y)", "f > > x", "f(x, , y)", "f(x", "f)x", "f > x as", "as x", "f(x=)", "f(=1)",
    "f(x=1=2)", "f(x:y:z)", "f($)", "f(!)", "f(!!)", "!!x", "f(!!x)", "f(!x, !y)", "f(!x, !!y, !!z)", "f > $x > y", "* > x", "f(*)",
    "f > #bad", "f(#bad) > x", "f > x:T", "f > x:1", "f > x:f", "nofn > x", "f.nope > x", "1 > x", "'s' > x", "f > 's'", "f > 1",
]


_NS = None


def _classify(exc):
    import traceback

    tb = traceback.extract_tb(exc.__traceback__)
    site = tb[-1].name if tb else "?"
    return f"{type(exc).__name__}@{site}"


def check_string(s, require, fpb):
    """All obligations for one concrete string.  Runs natively."""
    import ptera
    from ptera import probing
    from ptera.selector import Call, Element, SelectorError, parse, select
    from pv.corpus.base import load

    global _NS
    if _NS is None:
        _NS = load({"name": "c18", "src": "def f(x, y=0):\n    z = x + y\n    return z\n\ndef g(y):\n    w = y\n    return w\n",
                    "funcs": ["f"]})[0]
    ns = _NS
    env = {"f": ns["f"], "g": ns["g"], "T": 3}

    def ok_error(e, where):
        if isinstance(e, SyntaxError):
            return e.offset is not None
        if isinstance(e, SelectorError):
            return True
        if isinstance(e, TypeError) and where != "parse":
            return "category can only be a Tag" in str(e) or "cannot be tooled" in str(e) or "only works on functions" in str(e)
        return False

    # 1. parse
    try:
        parse(s)
    except RecursionError as e:  # pragma: no cover
        require(False, "parse() does not terminate normally", {"fp": f"{fpb}:parse:RecursionError"})
    except Exception as e:
        require(ok_error(e, "parse"), f"parse({s!r}) failed with an internal error: {type(e).__name__}: {e}",
                {"fp": f"{fpb}:parse:{_classify(e)}", "string": s})
    # 2. select
    sel = None
    try:
        sel = select(s, env=env)
    except Exception as e:
        require(ok_error(e, "select"), f"select({s!r}) failed with an internal error: {type(e).__name__}: {e}",
                {"fp": f"{fpb}:select:{_classify(e)}", "string": s})
    # 3. probing (creation + activation), plain and overridable.  Probe.__init__ calls select(s, env=env) first, i.e. exactly
    #    step 2: when that raised an allowed error there is nothing more to learn.
    if sel is None:
        return
    for overridable in (False, True, False):  # the plain attempt is repeated: a refusal must not wear off
        pr = None
        refused = None
        try:
            pr = probing(s, env=env, overridable=overridable)
            pr.__enter__()
        except Exception as e:
            refused = e
            internal = isinstance(e, (AssertionError, IndexError, AttributeError, KeyError, NameError, RecursionError)) or (
                isinstance(e, TypeError) and not ok_error(e, "probing"))
            require(not internal, f"probing({s!r}, overridable={overridable}) failed with an internal error: "
                    f"{type(e).__name__}: {e}", {"fp": f"{fpb}:probing:{_classify(e)}", "string": s})
        else:
            pr.__exit__(None, None, None)
        for fn in (ns["f"], ns["g"]):
            st = getattr(fn, "__ptera_stack__", None)
            if st is not None and st.instrument_count != 0:
                _NS = None  # a failed activation left the function instrumented: fresh functions for the next string
        if sel is not None and refused is None:
            # activated: then the selector must be one that can match
            def walk(c):
                yield c
                for ch in c.children:
                    yield from walk(ch)

            for call in walk(sel):
                for cap in call.captures:
                    nm = cap.name
                    if isinstance(nm, str) and nm.startswith("#") and not nm.startswith(("#loop_", "#endloop_")):
                        require(nm in ("#enter", "#error", "#exit", "#receive", "#value", "#yield"),
                                f"a selector with the unknown meta-variable {nm} was activated instead of refused",
                                {"fp": f"{fpb}:accepted:unknown-hashvar", "string": s})
            tags = set()  # computed here from the captures (the selector's own cached all_tags is part of what is checked)
            for call in walk(sel):
                for cap in call.captures:
                    tags |= set(cap.tags)
            require(not (2 in tags and 1 not in tags), "a selector with !! but no ! was activated instead of refused",
                    {"fp": f"{fpb}:accepted:double-focus-without-focus", "string": s})
            if overridable:
                require(bool(sel.focus), "an overridable probe without a focus was activated instead of refused",
                        {"fp": f"{fpb}:accepted:overridable-without-focus", "string": s})


def run_special(case):
    """Engine Z: emptiness queries on the live lexer regexes."""
    import time

    import z3
    from ptera.selector import parser
    from pv.engine.zsmt import cvc5_check, sre_to_z3

    queries, cex = [], []
    for rx, typ in parser.lexer.definitions.items():
        re_, notes = sre_to_z3(rx)
        s = z3.Solver()
        s.set("timeout", 20000)
        x = z3.String("x")
        s.add(z3.InRe(x, re_), z3.Length(x) == 0)
        t0 = time.perf_counter()
        r = str(s.check())
        q = {"name": f"epsilon not in L({typ})", "regex": rx, "z3": r, "z3_s": round(time.perf_counter() - t0, 4), "notes": notes[:2],
             "status": "proved" if r == "unsat" else ("refuted" if r == "sat" else "inconclusive")}
        if r == "sat":
            cex.append({"args": {"regex": rx, "type": typ}, "kind": "property",
                        "message": f"lexer regex for {typ} matches the empty string: the lexer loop would not advance",
                        "detail": {"fp": f"C18:z:empty-match:{typ}"}})
        queries.append(q)
        # a second, positive query: some non-empty string IS matched (the translation is not vacuous)
        s2 = z3.Solver()
        s2.add(z3.InRe(x, re_), z3.Length(x) >= 1)
        r2 = str(s2.check())
        queries.append({"name": f"L({typ}) non-empty (translation sanity)", "z3": r2, "status": "proved" if r2 == "sat" else "inconclusive"})
    proved = sum(1 for q in queries if q["status"] == "proved")
    inconcl = [q["name"] for q in queries if q["status"] == "inconclusive"]
    return {"paths": len(queries), "confirmed": proved, "refuted": len(cex), "unknown": len(inconcl), "ignored": 0,
            "exhausted": not inconcl, "timed_out": False, "z3_calls": len(queries), "z3_secs": sum(q.get("z3_s", 0) for q in queries),
            "z3_unsat": sum(1 for q in queries if q.get("z3") == "unsat"), "z3_sat": sum(1 for q in queries if q.get("z3") == "sat"),
            "z3_unknown": len(inconcl), "obligations": len(queries), "counterexamples": cex, "samples": queries[:3],
            "queries": {"n": len(queries), "proved": proved, "inconclusive": inconcl}}


def replay_special(case, args):
    import re

    m = re.match(args["regex"], "")
    return bool(m), f"re.match({args['regex']!r}, '') -> {m}", f"C18:z:empty-match:{args['type']}"


def build(case):
    from crosshair.tracers import NoTracing
    from pv.engine.xsym import assume, int_harness, pick, require

    p = case["params"]
    twin = bool(case.get("vacuity_twin"))
    kind = p["kind"]

    if kind == "lexer":
        from ptera.selector import parser

        L = p["len"]

        def h_lex(s: str):
            assume(len(s) <= L)
            toks = parser.lexer(s)
            joined = "".join(t.value for t in toks)
            stripped = "".join(ch for ch in s if not ch.isspace())
            if twin:
                require(not (len(toks) >= 2), "vacuity twin", {"fp": "twin"})
                return
            require("".join(ch for ch in joined if not ch.isspace()) == stripped,
                    "token values do not concatenate back to the input (minus whitespace)", {"fp": "C18:lexer:roundtrip"})
            for t in toks:
                require(t.location.start < t.location.end, "a token consumed no character", {"fp": "C18:lexer:empty-token"})

        return h_lex

    if kind == "tokens":
        n = p["n"]
        gaps = p.get("gaps", True)
        first = p.get("first")
        ALPHABET = QUICK if p.get("alphabet") == "quick" else globals()["ALPHABET"]

        def run(*a):
            idx = []
            for j, i in enumerate(a[:n]):  # lazily: prune as early as possible
                v = pick(i, len(ALPHABET) + 1)  # len(ALPHABET) == "no token" (shorter sequences)
                if j == 0 and first is not None:
                    assume(v == first)
                # canonical form: "no token" only at the end
                if idx and idx[-1] == len(ALPHABET):
                    assume(v == len(ALPHABET))
                idx.append(v)
            toks = [ALPHABET[i] for i in idx if i < len(ALPHABET)]
            if gaps:
                gp = []
                for j, g in enumerate(a[n:]):
                    if j + 1 < len(toks):
                        gp.append(pick(g, 2))
                    else:
                        assume(g == 0)  # unused gap: one representative
                        gp.append(0)
            else:
                gp = [1] * (n - 1)
            s = ""
            for j, t in enumerate(toks):
                if j > 0:
                    s += " " if gp[j - 1] else ""
                s += t
            if twin:
                from ptera.selector import parse

                with NoTracing():
                    try:
                        parse(s)
                        okp = True
                    except Exception:
                        okp = False
                require(not (okp and len(toks) >= 3), "vacuity twin", {"fp": "twin"})
                return
            with NoTracing():
                check_string(s, require, "C18:tokens")

        names = [f"t{i}" for i in range(n)] + ([f"g{i}" for i in range(n - 1)] if gaps else [])
        return int_harness(run, names)

    if kind == "hashvars":
        VALID = ["#enter", "#error", "#exit", "#receive", "#value", "#yield"]
        MUT = [lambda h: h, lambda h: h + "s", lambda h: h + "2", lambda h: h[:-1], lambda h: h.upper(), lambda h: "#" + h,
               lambda h: h[:2], lambda h: h + "_x"]
        HSHAPES = ["f > {H}", "f({H}) > z", "f(x, {H} as q) > z", "f > g({H}) > w", "f({H}, !x)"]

        def run(hsel, msel, ssel):
            h = MUT[pick(msel, len(MUT))](VALID[pick(hsel, len(VALID))])
            s = HSHAPES[pick(ssel, len(HSHAPES))].replace("{H}", h)
            if twin:
                require(h not in VALID, "vacuity twin", {"fp": "twin"})
                return
            with NoTracing():
                check_string(s, require, "C18:hashvars")
                if h in VALID:
                    from ptera import probing

                    import ptera  # noqa: F401
                    from pv.props.c18 import _NS

                    env = {"f": _NS["f"], "g": _NS["g"]}
                    try:
                        pr = probing(s, env=env)
                        pr.__enter__()
                        pr.__exit__(None, None, None)
                        okv = True
                    except Exception as e:  # noqa
                        okv = type(e).__name__
                    require(okv is True, f"a documented meta-variable was refused: {okv}", {"fp": "C18:hashvars:valid-refused"})

        return int_harness(run, ["hsel", "msel", "ssel"])

    if kind == "shaped":
        holes = p["holes"]

        def run(tsel, *a):
            ti = pick(tsel, len(SHAPES))
            t = SHAPES[ti]
            ops = [OPERANDS[pick(x, len(OPERANDS))] for x in a]
            if "{A}" not in t and "{B}" not in t:
                for x in a:
                    assume(x == 0)
            elif "{B}" not in t:
                assume(a[1] == 0)
            s = t.replace("{A}", ops[0]).replace("{B}", ops[1])
            if twin:
                require(not ("{A}" in t and "{B}" in t), "vacuity twin", {"fp": "twin"})
                return
            with NoTracing():
                check_string(s, require, "C18:shaped")

        return int_harness(run, ["tsel", "a", "b"])

    if kind == "pairs":
        # two selectors one after the other in one interpreter: what the first leaves in the interning / caching layers
        # must not change the verdict on the second (they share nested calls, differ in focus marks)
        def run(asel, bsel):
            A = PAIR_STRINGS[pick(asel, len(PAIR_STRINGS))]
            B = PAIR_STRINGS[pick(bsel, len(PAIR_STRINGS))]
            if twin:
                require(not (A != B), "vacuity twin", {"fp": "twin"})
                return
            with NoTracing():
                check_string(A, require, "C18:pairs:first")
                check_string(B, require, "C18:pairs:second")

        return int_harness(run, ["a", "b"])

    if kind == "words":
        # one word, spelled character by character, in every position where the evaluator interprets words
        # (function, variable, category, = value, ~ predicate)
        tmpl = WORD_TEMPLATES[p["template"]]
        L = p["len"]

        def run(*a):
            chars = []
            for x in a:
                k = pick(x, len(WORD_CHARS) + 1)
                if chars and chars[-1] is None:
                    assume(k == len(WORD_CHARS))
                chars.append(None if k == len(WORD_CHARS) else WORD_CHARS[k])
            w = "".join(c for c in chars if c is not None)
            assume(len(w) >= 1)
            if twin:
                require(not (len(w) == L), "vacuity twin", {"fp": "twin"})
                return
            with NoTracing():
                check_string(tmpl.replace("{W}", w), require, "C18:words")

        return int_harness(run, [f"c{i}" for i in range(L)])

    raise ValueError(kind)


PAIR_STRINGS = ["f(!x) > g(!!y)", "g(!!y)", "f > g(!!y)", "f(x) > g(!!y)", "f(!x, !!y)", "f(!!x)", "f(!x) > g(y)", "f > g(!y)",
                "f(!!x) > g(!y)", "g(!y)", "f(!x) > g(!y)", "f(x, g(!!y))", "f(!x, g(!!y))", "f(#bad) > g(!y)", "f > g(y)", "f(x) > g(y)"]
WORD_CHARS = ["1", ".", "-", "a", "#", "@", "'", "e", "_", "0"]
WORD_TEMPLATES = ["f(x={W})", "f > x:{W}", "{W} > x", "f(x~{W})", "f > {W}", "f({W}) > x", "f(x) as {W}", "f > $x:{W}"]


def cases(tier, seed):
    th = tier == "thorough"
    cs = [{"id": "z:lexer-regexes", "kind": "zsmt", "params": {"kind": "regex"}},
          {"id": "x:lexer", "params": {"kind": "lexer", "len": 3 if th else 2}, "budget_s": 3000 if th else 250, "per_path_s": 40},
          {"id": "x:lexer:twin", "params": {"kind": "lexer", "len": 2}, "vacuity_twin": True, "stop_on_refute": True, "budget_s": 100},
          {"id": "x:hashvars", "params": {"kind": "hashvars"}, "budget_s": 600 if th else 250},
          {"id": "x:hashvars:twin", "params": {"kind": "hashvars"}, "vacuity_twin": True, "stop_on_refute": True, "budget_s": 60},
          {"id": "x:shaped", "params": {"kind": "shaped", "holes": 2}, "budget_s": 3000 if th else 250},
          {"id": "x:shaped:twin", "params": {"kind": "shaped", "holes": 2}, "vacuity_twin": True, "stop_on_refute": True, "budget_s": 60}]
    for ti in range(len(WORD_TEMPLATES)):
        cs.append({"id": f"x:words:{WORD_TEMPLATES[ti]}", "params": {"kind": "words", "template": ti, "len": 4 if th else 3},
                   "budget_s": 3000 if th else 250})
    cs.append({"id": "x:words:twin", "params": {"kind": "words", "template": 0, "len": 2}, "vacuity_twin": True, "stop_on_refute": True,
               "budget_s": 60})
    cs.append({"id": "x:pairs", "params": {"kind": "pairs"}, "budget_s": 600})
    cs.append({"id": "x:pairs:twin", "params": {"kind": "pairs"}, "vacuity_twin": True, "stop_on_refute": True, "budget_s": 60})
    alpha = ALPHABET if th else QUICK
    for first in range(len(alpha)):
        cs.append({"id": f"x:tokens:first={alpha[first]}", "params": {"kind": "tokens", "n": 3, "first": first, "gaps": True,
                                                                      "alphabet": "full" if th else "quick"},
                   "budget_s": 3000 if th else 250})
    for first in range(len(QUICK)):
        if th:
            cs.append({"id": f"x:tokens4:first={QUICK[first]}", "params": {"kind": "tokens", "n": 4, "first": first, "gaps": False,
                                                                        "alphabet": "quick"}, "budget_s": 6000})
    cs.append({"id": "x:tokens:twin", "params": {"kind": "tokens", "n": 3, "first": 0, "gaps": True}, "vacuity_twin": True,
               "stop_on_refute": True, "budget_s": 60})
    return cs
