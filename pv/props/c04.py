"""C04 -- overriding a focus variable is equivalent to substituting the assigned value.

The real override machinery (OverridableProbe.override/koverride through the giving
pipeline, Overlay.tweaking/rewriting, WorkingFrame.intercept, BaseAccumulator.intercept)
is executed symbolically; the *substitution twin* of the same template (pv/refinst.py with
a substitution function applied at every binding of the focus) is executed on the same
symbolic inputs, override constant and threshold.  Compared: outcome, ordered effect log
(right-hand sides evaluated exactly once), final state, and the stream of a plain
(non-overriding) probe on the same variable.
"""

from __future__ import annotations

from pv.corpus.templates import BY_NAME, generated
from pv.props.c01 import _fn_holder, _get_fn, _observe, _set_fn

PROPERTY = "C04"

META = {
    "level": "model_checking",
    "technique": "bounded symbolic execution (CrossHair/z3) of the real override path vs an independent substitution twin",
    "functions": [
        "ptera.interpret.Interactor.interact", "ptera.interpret.WorkingFrame.intercept/log/trigger",
        "ptera.interpret.BaseAccumulator.intercept/_call_with_snapshot", "ptera.interpret.OverrideException",
        "ptera.probe.OverridableProbe._emit/override/koverride/_make_rule", "ptera.overlay.Overlay.tweak/rewrite/tweaking/rewriting",
        "ptera.transform.PteraTransformer.make_interaction (overridable flag; output executed)", "giving map/filter/subscribe (real)",
    ],
    "bounds": {
        "quick": {"ints": "unbounded (arguments, override constants, threshold)", "trip_counts": "<= 3",
                  "nesting": "two overriding probes + one plain probe in all 3 positions"},
        "thorough": {"ints": "unbounded", "trip_counts": "<= 3", "nesting": "as quick, on more templates", "generator_driver_ops": 3},
    },
    "out_of_scope": ["programs outside the catalogue", "subscript stores as focus (no selector syntax for them)",
                     "asynchronous pipelines (override is documented for synchronous pipelines only)"],
    "assumptions": ["transform executed natively", "substitution twin applies the same override function to the twin's own "
                    "context snapshot (latest values of the activation)"],
}

# (template, focus, context variable or None)
TARGETS = [
    ("plain", "s", "x"), ("plain", "u", "y"), ("plain", "x", None), ("plain", "t", "s"),
    ("tuples", "p", "x"), ("tuples", "n", "m"), ("selfref_unpack", "depth", None),
    ("for_loop", "i", "x"), ("for_loop", "acc", "i"), ("while_loop", "tot", "k"),
    ("nested_loops", "tot", "i"), ("nested_loops", "j", "i"),
    ("attr_sub", "o.val", "x"), ("attr_sub", "w", "x"), ("method", "y", "x"), ("method", "self.base", "x"),
    ("try_paths", "r", "x"), ("try_unnamed", "r", "x"), ("try_finally_return", "x", "i"), ("with_cm", "y", "x"),
    ("with_target", "w", "x"), ("walrus_rhs", "z", "x"),
    ("params", "q", "p"), ("params", "kd", None), ("recursion", "y", "n"), ("recursion", "x", "n"),
    ("plain", "#value", "x"), ("no_return", "#value", "x"), ("for_loop", "#value", "x"), ("recursion", "#value", "n"),
    ("starred", "p", None), ("unpack_kinds", "q", None), ("closure_nonlocal", "y", "x"), ("globals_rw", "y", "x"),
    ("unpack_order", "j", "i"),
]
GEN_TARGETS = [("gen_loop", "tot", "i"), ("gen_loop", "#yield", "i"), ("gen_stmt", "k", "i"), ("gen_loop", "got", None)]


def _mk_override(family, focus, ctx, V, T):
    """Override as a function of (tentative, ctx value or None) -> new value or DECLINE."""
    if family == "const":
        return lambda tent, cv: V
    if family == "ctx":
        return lambda tent, cv: V + (cv if isinstance(cv, int) else 0)
    if family in ("cond", "cond_absent"):
        return lambda tent, cv: (V if (isinstance(tent, int) and tent > T) else DECLINE)
    if family == "ctxcond":
        return lambda tent, cv: (V if (isinstance(cv, int) and cv > T) else DECLINE)
    raise ValueError(family)


class _Decline:
    pass


DECLINE = _Decline()


def build(case):
    from ptera import Overlay, probing, tooled
    from ptera.interpret import OverrideException
    from ptera.selector import select
    from ptera.utils import ABSENT
    from pv.corpus.base import Recorder, load, norm
    from pv.engine.xsym import pick, require

    p = case["params"]
    tmpl = BY_NAME[p["template"]]
    focus, ctx = p["focus"], p["ctx"]
    family, mech, nest = p["family"], p["mech"], p.get("nest", "single")
    twin = bool(case.get("vacuity_twin"))
    fname = p.get("fn") or tmpl["funcs"][0].split(".")[-1]
    fpb = f"C04:{tmpl['name']}:{focus}"
    needs = p.get("needs")  # per override: name of the function that must be an ancestor activation (or None)
    sels2 = p.get("sels")  # explicit selector texts for the two overriding probes (call-path precedence cases)
    cfgd = {"mech": mech, "family": family, "nest": nest}

    def core(a, b, c, d, V, V2, T, ops, vals):
        ov1 = _mk_override(family, focus, ctx, V, T)
        ov2 = _mk_override("cond", focus, ctx, V2, T + 1)  # second (inner) override: conditional, other constant
        overrides = [ov1] if nest == "single" else [ov1, ov2]

        # ---------------- substitution twin
        def subst(frame, name, value):
            if frame.fname != fname or name != focus:
                return value
            cv = frame.latest.get(ctx) if ctx else None
            out = value
            for k, ov in enumerate(overrides):  # activation order: the last one that does not decline wins
                if needs and needs[k]:
                    # this override's selector names an enclosing function: it applies only under such an activation
                    anc, ok_path = frame.parent, False
                    while anc is not None:
                        if frame.rec.acts[anc].fname == needs[k]:
                            ok_path = True
                            break
                        anc = frame.rec.acts[anc].parent
                    if not ok_path:
                        continue
                r = ov(value, cv)
                if r is not DECLINE:
                    out = r
            return out

        rec = Recorder(subst=subst)
        ns_t, H_t = load(tmpl, twin=True, recorder=rec)
        exp = _observe(ns_t, H_t, tmpl, (a, b, c, d), ops, vals)
        exp_stream = [norm(e[3]) for e in rec.log() if e[0] == "bind" and e[2] == focus and rec.acts[e[1]].fname == fname]
        if focus in ("#value", "#yield"):
            kind = focus[1:]
            exp_stream = [norm(e[2]) for e in rec.log() if e[0] == kind and rec.acts[e[1]].fname == fname]

        # ---------------- real
        ns_i, H_i = load(tmpl)
        _, _, selfn = _fn_holder(ns_i, tmpl)
        sel = f"{selfn}({ctx}) > {focus}" if ctx else f"{selfn} > {focus}"
        sel_b = sel
        plain_sel = f"{selfn} > {focus}"
        if sels2:
            sel, sel_b = sels2
            plain_sel = f"{fname} > {focus}"
        seen = []

        def as_setter(ov):
            def setter(data):
                r = ov(data[focus], data.get(ctx) if ctx else None)
                return ABSENT if r is DECLINE else r
            return setter

        def attach(prb, ov, fam):
            if mech == "koverride" and all(k.isidentifier() for k in ([focus] + ([ctx] if ctx else []))):
                if ctx:
                    prb.koverride(lambda **kw: as_setter(ov)({focus: kw[focus], **({ctx: kw[ctx]} if ctx in kw else {})}))
                else:
                    prb.koverride(lambda **kw: as_setter(ov)(kw))
            elif fam == "cond":
                # decline through the pipeline: events that fail the filter never reach the setter
                prb.filter(lambda data: ov(data[focus], data.get(ctx) if ctx else None) is not DECLINE).override(as_setter(ov))
            else:
                prb.override(as_setter(ov))

        stack = []

        def enter(cm):
            cm.__enter__()
            stack.append(cm)
            return cm

        try:
            if mech in ("override", "koverride"):
                plain = probing(plain_sel, env=ns_i)
                order = {"single": ["o1", "plain"], "plain_outer": ["plain", "o1", "o2"], "plain_mid": ["o1", "plain", "o2"],
                         "plain_inner": ["o1", "o2", "plain"]}[nest]
                for what in order:
                    if what == "plain":
                        enter(plain)
                        plain.subscribe(lambda data: seen.append(norm(data[focus])))
                    elif what == "o1":
                        attach(enter(probing(sel, env=ns_i, overridable=True)), ov1, family)
                    else:
                        attach(enter(probing(sel_b, env=ns_i, overridable=True)), ov2, "cond")
            else:  # Overlay API on a @tooled function (no auto-instrumentation)
                _set_fn(ns_i, tmpl, tooled(_get_fn(ns_i, tmpl)))
                rsel = select(sel, env=ns_i)
                if mech == "tweaking":
                    enter(Overlay.tweaking({rsel: V}))
                else:
                    enter(Overlay.rewriting({rsel: as_setter(ov1)}))
                psel = select(f"{selfn} > {focus}", env=ns_i)
                tap = Overlay()
                tap.register(psel, lambda data: seen.append(norm(data[focus])))
                enter(tap)
            got = _observe(ns_i, H_i, tmpl, (a, b, c, d), ops, vals)
        finally:
            for cm in reversed(stack):
                cm.__exit__(None, None, None)

        if twin:
            require(not (got == exp and seen == exp_stream and len(exp_stream) > 0), "vacuity twin", {"fp": "twin"})
            return
        require(got[0] == exp[0], "overridden call differs from the program with the value substituted",
                {"fp": f"{fpb}:outcome", "sel": sel, "got": got[0], "exp": exp[0], **cfgd})
        require(got[1] == exp[1], "side effects differ from the substituted program (right-hand side not evaluated exactly once?)",
                {"fp": f"{fpb}:effects", "sel": sel, **cfgd})
        require(seen == exp_stream, "a plain probe on the same variable does not see exactly the substituted values",
                {"fp": f"{fpb}:plain-stream", "sel": sel, "got": seen, "exp": exp_stream, **cfgd})

    if p.get("closure"):
        def h_closure(a: int, V: int):
            ns_i, H_i = load(tmpl)
            with probing(f"f > {focus}", env=ns_i, overridable=True) as prb:
                prb.override(lambda data: V)
                try:
                    ns_i["drive"](a, 0, 0, 0)
                    raised = False
                except OverrideException:
                    raised = True
            if twin:
                require(not raised, "vacuity twin", {"fp": "twin"})
                return
            require(raised, "override of a closure variable was not reported as an error",
                    {"fp": f"C04:closure:{tmpl['name']}:not-reported"})
        return h_closure

    if tmpl["gen"]:
        def h_gen(a: int, b: int, c: int, d: int, V: int, T: int, o1: int, o2: int, o3: int, s1: int, s2: int, s3: int):
            core(a, b, c, d, V, V + 1, T, [pick(o1, 4), pick(o2, 4), pick(o3, 4)], [s1, s2, s3])
        return h_gen

    def h(a: int, b: int, c: int, d: int, V: int, V2: int, T: int):
        core(a, b, c, d, V, V2, T, None, None)

    return h


def cases(tier, seed):
    th = tier == "thorough"
    cs = []

    def add(t, f, cx, family, mech, nest="single", budget=None, **kw):
        cid = f"{t}:{f}:{mech}:{family}:{nest}"
        cs.append({"id": cid, "params": {"template": t, "focus": f, "ctx": cx, "family": family, "mech": mech, "nest": nest},
                   "budget_s": budget or (600 if th else 120), **kw})

    for i, (t, f, cx) in enumerate(TARGETS):
        fams = ["const", "cond"] + (["ctx", "ctxcond"] if cx else [])
        if not th:
            fams = fams[:2] + (["ctx"] if cx and i % 2 == 0 else []) + (["ctxcond"] if cx and i % 2 == 1 else [])
        for fam in fams:
            add(t, f, cx, fam, "override")
        if th or i % 3 == 0:
            add(t, f, cx, "cond_absent", "override")
            add(t, f, cx, "const", "koverride")
        if th or i % 4 == 0:
            add(t, f, cx, "const", "tweaking")
            add(t, f, cx, "ctx" if cx else "cond_absent", "rewriting")
    nests = TARGETS if th else [TARGETS[0], TARGETS[7], TARGETS[8], TARGETS[13], TARGETS[28]]
    for t, f, cx in nests:
        for nest in ("plain_outer", "plain_mid", "plain_inner"):
            add(t, f, cx, "const", "override", nest)
            add(t, f, cx, "cond", "override", nest)
    for t in generated(seed, 24 if th else 6):
        vs = [v for v in t["vars"] if v.startswith("v")][: (4 if th else 2)]
        for v in vs:
            add(t["name"], v, "a", "const", "override")
            add(t["name"], v, "a", "cond", "override")
            if th:
                add(t["name"], v, "a", "ctx", "override")
                add(t["name"], v, "a", "const", "tweaking")
    for t, f, cx in GEN_TARGETS:
        add(t, f, cx, "const", "override", budget=900 if th else 200)
        add(t, f, cx, "cond", "override", budget=900 if th else 200)
    # precedence between overrides whose selectors name call paths of different length (both orders of activation)
    for nm, sels, needs in (("long-first", ["f > inner > x", "inner > x"], ["f", None]),
                            ("short-first", ["inner > x", "f > inner > x"], [None, "f"]),
                            ("ctx-long-first", ["f(a) > inner > x", "inner(v) > x"], ["f", None])):
        for nest in ("plain_outer", "plain_inner"):
            for fam in ("const", "cond"):
                cs.append({"id": f"callpath:x:{nm}:{fam}:{nest}",
                           "params": {"template": "callpath", "focus": "x", "ctx": None, "family": fam, "mech": "override", "nest": nest,
                                      "fn": "inner", "sels": sels, "needs": needs}, "budget_s": 600 if th else 120})
    cs.append({"id": "closure_nonlocal:cnt:override", "params": {"template": "closure_nonlocal", "focus": "cnt", "ctx": None,
                                                                 "family": "const", "mech": "override", "closure": True}, "budget_s": 60})
    cs.append({"id": "closure_read:k:override", "params": {"template": "closure_read", "focus": "k", "ctx": None,
                                                           "family": "const", "mech": "override", "closure": True}, "budget_s": 60})
    cs.append({"id": "closure_read:k:override:twin", "params": {"template": "closure_read", "focus": "k", "ctx": None,
                                                                "family": "const", "mech": "override", "closure": True},
               "vacuity_twin": True, "stop_on_refute": True, "budget_s": 60})
    for t, f, cx in (TARGETS[0], TARGETS[8]):
        cs.append({"id": f"{t}:{f}:override:cond:twin", "params": {"template": t, "focus": f, "ctx": cx, "family": "cond",
                                                                  "mech": "override", "nest": "single"},
                   "vacuity_twin": True, "stop_on_refute": True, "budget_s": 60})
    return cs
