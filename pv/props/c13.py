"""C13 -- method selectors bind to the right function and the right receiver.

A population of receivers (plain objects, objects with value equality that are equal but
distinct, an object defining __eq__ without __hash__, a subclass instance inheriting the
method, a class whose receiver parameter is called `this`) is probed through the class,
through one particular object (symbolic index), through a functools.wraps decorator, a
property and a dotted attribute path; a symbolic sequence of calls over the population with a
symbolic argument runs on the real code.  Events (value, receiver identity) must be exactly
those of the calls whose receiver *is* the probed object (instance form) or any instance
(class form); a homonymous module-level function must keep its original code.
"""

from __future__ import annotations

PROPERTY = "C13"

META = {
    "level": "model_checking",
    "technique": "bounded symbolic execution (CrossHair/z3) over a receiver population, symbolic probed object / call sequence / argument",
    "functions": [
        "ptera.selector._resolve (MethodType branch)/_dig/dict_resolver", "ptera.selector.Selector.check_captures",
        "ptera.selector.InternedMC.__call__", "ptera.interpret.BaseAccumulator.__check", "ptera.overlay.autotool/_tooler",
        "ptera.probe.Probe.__init__/_emit",
    ],
    "bounds": {"quick": {"population": 10, "calls": "<= 2 (symbolic receivers)", "argument": "unbounded Int"},
               "thorough": {"population": 10, "calls": "<= 3 (two after the second probe in the twice form)", "argument": "unbounded Int"}},
    "out_of_scope": ["receivers whose __eq__ raises", "classmethods/staticmethods", "populations other than the eight receivers"],
    "assumptions": ["transform executed natively", "probe activation executed natively (concrete data)"],
}

SRC = '''
import functools

class Plain:
    def __init__(self, k):
        self.k = k

    def meth(self, x):
        y = x + self.k
        return y

class WithEq(Plain):
    def __eq__(self, other):
        return isinstance(other, WithEq) and other.k == self.k

    def __hash__(self):
        return hash(self.k)

class EqNoHash(Plain):
    def __eq__(self, other):
        return isinstance(other, EqNoHash) and other.k == self.k

class Sub(Plain):
    pass

class Falsy(Plain):
    def __bool__(self):
        return False

class EmptyLen(Plain):
    def __len__(self):
        return 0

def poll(o, x):
    r = o.meth(x)
    return r

class Node:
    def __init__(self, k, nxt=None):
        self.k = k
        self.nxt = nxt

    def visit(self, x):
        sub = self.nxt.visit(x) if self.nxt is not None else 0
        y = x + self.k
        return y + sub

def walk(n, x):
    r = n.visit(x)
    return r

N3 = Node(30)
N2 = Node(20, N3)
N1 = Node(10, N2)
NODES = [N1, N2, N3]

class This:
    def __init__(this, k):
        this.k = k

    def meth(this, x):
        y = x + this.k + 100
        return y

def deco(fn):
    @functools.wraps(fn)
    def wrapper(*a, **kw):
        return fn(*a, **kw)
    return wrapper

class Deco:
    def __init__(self, k):
        self.k = k

    @deco
    def meth(self, x):
        y = x + self.k + 200
        return y

class Prop:
    def __init__(self, k):
        self.k = k

    @property
    def val(self):
        y = self.k + 300
        return y

class Holder:
    pass

def meth(x):
    y = x - 1
    return y

POP = [Plain(1), Plain(1), WithEq(2), WithEq(2), WithEq(3), EqNoHash(4), Sub(5), This(6), Falsy(7), EmptyLen(8)]
DECOS = [Deco(1), Deco(2)]
PROPS = [Prop(1), Prop(2)]
holder = Holder()
holder.inner = Holder()
holder.inner.objs = Holder()
holder.inner.objs.first = POP[0]
holder.inner.objs.eq = POP[2]
'''
TMPL = {"name": "c13", "src": SRC, "funcs": ["meth"], "gen": False}
KINDS = ["plain", "plain", "eq", "eq", "eq", "eq-nohash", "sub", "this", "falsy", "empty-len"]


def build(case):
    import contextvars

    from crosshair.tracers import NoTracing
    from ptera import probing
    from ptera.probe import global_probes
    from ptera.selector import select
    from pv.corpus.base import load
    from pv.engine.xsym import assume, int_harness, pick, require

    p = case["params"]
    twin = bool(case.get("vacuity_twin"))
    form = p["form"]
    ncalls = p["ncalls"]
    fixed = p.get("probed")
    focus = p.get("focus", "y")  # instance form: the focus may be a meta-variable of the method
    ftag = "" if focus == "y" else ":" + focus

    def run(x, psel, calls):
        ns, _ = load(TMPL)
        POP = ns["POP"]
        homonym_code = ns["meth"].__code__
        probed = None
        selfname = "self"
        if form == "class":
            text, population = "Plain.meth > y", POP
            fires = lambda o: isinstance(o, ns["Plain"])  # noqa: E731
        elif form == "this_class":
            text, population = "This.meth > y", POP
            fires = lambda o: isinstance(o, ns["This"])  # noqa: E731
        elif form in ("instance", "nested_step"):
            pi = pick(psel, 10)
            if fixed is not None:
                assume(pi == fixed)
            probed = POP[pi]
            ns["obj"] = probed
            text, population = (f"obj.meth > {focus}" if form == "instance" else "poll > obj.meth > y"), POP
            fires = lambda o: o is probed  # noqa: E731
            selfname = "this" if pi == 7 else "self"
        elif form == "twice":
            # the same selector text through two different objects, one probe after the other
            pa = pick(psel, 10)
            if fixed is not None:
                assume(pa == fixed)
            pb = pick(calls[0], 10)
            calls = calls[1:]
            assume(pa != pb and pa != 5 and pb != 5)
            first_obj = POP[pa]
            with NoTracing():
                ns["obj"] = first_obj
                sn0 = "this" if pa == 7 else "self"
                first_text = {None: "obj.meth > y", "ctx": f"obj.meth({sn0}) > y", "focus": f"obj.meth > {sn0}"}[p.get("named")]
                p0 = probing(select(first_text, env=ns))
                p0.__enter__()
                first_obj.meth(0)
                p0.__exit__(None, None, None)
            probed = POP[pb]
            ns["obj"] = probed
            text, population = "obj.meth > y", POP
            fires = lambda o: o is probed  # noqa: E731
            selfname = "this" if pb == 7 else "self"
        elif form == "recursive_step":
            which = pick(psel, 3)
            probed = ns["NODES"][which]
            ns["obj"] = probed
            text, population = "walk > obj.visit > y", ns["NODES"]
            fires = lambda o: o is probed  # noqa: E731
        elif form == "dotted":
            which = pick(psel, 2)
            probed = POP[0] if which == 0 else POP[2]
            text, population = ("holder.inner.objs.first.meth > y" if which == 0 else "holder.inner.objs.eq.meth > y"), POP
            fires = lambda o: o is probed  # noqa: E731
        elif form == "wrapped_class":
            text, population = "Deco.meth > y", ns["DECOS"]
            fires = lambda o: True  # noqa: E731
        elif form == "wrapped_instance":
            which = pick(psel, 2)
            probed = ns["DECOS"][which]
            ns["obj"] = probed
            text, population = "obj.meth > y", ns["DECOS"]
            fires = lambda o: o is probed  # noqa: E731
        elif form == "property":
            text, population = "Prop.val > y", ns["PROPS"]
            fires = lambda o: True  # noqa: E731
        else:
            raise ValueError(form)
        kindp = (KINDS[POP.index(probed)] if probed in POP[:0] else None)
        pk = "n/a"
        if probed is not None:
            for i, o in enumerate(POP):
                if o is probed:
                    pk = KINDS[i]
            if form.startswith("wrapped"):
                pk = "decorated"
        got = []
        pr = None
        try:
            with NoTracing():
                try:
                    pr = probing(select(text, env=ns))
                    pr.__enter__()
                    err = None
                except Exception as e:  # noqa
                    err, pr = e, None
            if err is not None:
                if twin:
                    return
                require(False, f"a probe through a {pk} receiver could not be created/activated: {type(err).__name__}",
                        {"fp": f"C13:{form}:activation:{pk}:{type(err).__name__}"})
            pr.subscribe(lambda d: got.append(d))
            exp = []
            for csel in calls:
                ci = pick(csel, len(population))
                o = population[ci]
                if form == "recursive_step":
                    # walking from o visits o and every node after it; the probed node fires iff it is o or after o
                    chain, cur = [], o
                    while cur is not None:
                        chain.append(cur)
                        cur = cur.nxt
                    rv = ns["walk"](o, x)
                    require(rv == sum(x + n_.k for n_ in chain), "walk returned a wrong value", {"fp": f"C13:{form}:return-value"})
                    if any(n_ is probed for n_ in chain):
                        exp.append((x + probed.k, probed))
                    continue
                if form == "property":
                    rv, want = o.val, o.k + 300
                else:
                    rv = ns["poll"](o, x) if form == "nested_step" else o.meth(x)
                    want = x + o.k + (100 if isinstance(o, ns["This"]) else 0) + (200 if isinstance(o, ns["Deco"]) else 0)
                require(rv == want, "method returned a wrong value", {"fp": f"C13:{form}:return-value"})
                if fires(o):
                    exp.append((want, o))
                elif probed is not None and not twin:
                    # a call on another receiver must not fire; classify the other receiver
                    pass
            # the homonymous module-level function is a different function
            rvh = ns["meth"](x)
            require(rvh == x - 1, "homonymous function returned a wrong value", {"fp": f"C13:{form}:homonym-value"})
            if twin:
                require(not (len(exp) >= 1 and len(got) == len(exp)), "vacuity twin", {"fp": "twin"})
                return
            require(ns["meth"].__code__ is homonym_code, "a plain function sharing the method's name was instrumented",
                    {"fp": f"C13:{form}:homonym-instrumented"})
            if len(got) != len(exp):
                cls = "extra" if len(got) > len(exp) else "missing"
                detail = pk
                if cls == "extra" and probed is not None:
                    # which kind of other receiver fired?
                    detail = pk + ":equal-but-distinct" if pk.startswith("eq") else pk
                require(False, f"{len(got)} events for {len(exp)} calls whose receiver is the probed object ({pk})"
                        + (f" with focus {focus}" if ftag else ""), {"fp": f"C13:{form}{ftag}:events:{cls}" + ("" if ftag else f":{detail}")})
            for d, (want, o) in zip(got, exp):
                require(d[focus] == (want if focus in ("y", "#value") else True), "event carries a wrong value",
                        {"fp": f"C13:{form}{ftag}:value"})
                if probed is not None and focus != "#enter":  # (at #enter the receiver is not bound yet)
                    require(selfname in d and d[selfname] is o, "the event does not report the receiver",
                            {"fp": f"C13:{form}:receiver-not-reported:{pk}"})
        finally:
            with NoTracing():
                if pr is not None:
                    try:
                        pr.__exit__(None, None, None)
                    except Exception:
                        pass
                global_probes.clear()

    def wrap(x, psel, *calls):
        contextvars.copy_context().run(run, x, psel, list(calls))

    return int_harness(wrap, ["x", "psel"] + [f"c{i}" for i in range(ncalls)])


def cases(tier, seed):
    th = tier == "thorough"
    nc = 3 if th else 2
    cs = []
    for form in ("class", "this_class", "dotted", "wrapped_class", "wrapped_instance", "property"):
        cs.append({"id": form, "params": {"form": form, "ncalls": min(nc, 3)}, "budget_s": 3000 if th else 200})
    cs.append({"id": "recursive_step", "params": {"form": "recursive_step", "ncalls": nc}, "budget_s": 3000 if th else 200})
    for probed in range(10):
        cs.append({"id": f"twice:first={probed}", "params": {"form": "twice", "ncalls": 3, "probed": probed},
                   "budget_s": 3000 if th else 200})
        cs.append({"id": f"instance:probed={probed}", "params": {"form": "instance", "ncalls": nc, "probed": probed},
                   "budget_s": 3000 if th else 200})
        cs.append({"id": f"nested_step:probed={probed}", "params": {"form": "nested_step", "ncalls": nc, "probed": probed},
                   "budget_s": 3000 if th else 200})
    # the first of the two probes names the receiver parameter itself (as context / as focus)
    for named in ("ctx", "focus"):
        for probed in ((0, 7) if not th else range(10)):
            if probed == 5:
                continue
            cs.append({"id": f"twice:named={named}:first={probed}", "params": {"form": "twice", "ncalls": 3, "probed": probed, "named": named},
                       "budget_s": 3000 if th else 200})
    for focus in ("#enter", "#value", "#exit"):
        for probed in ((0, 2, 4, 7, 9) if not th else range(10)):
            cs.append({"id": f"instance:focus={focus}:probed={probed}",
                       "params": {"form": "instance", "ncalls": 2, "probed": probed, "focus": focus}, "budget_s": 3000 if th else 200})
    cs.append({"id": "instance:twin", "params": {"form": "instance", "ncalls": 2, "probed": 0}, "vacuity_twin": True,
               "stop_on_refute": True, "budget_s": 60})
    cs.append({"id": "class:twin", "params": {"form": "class", "ncalls": 2}, "vacuity_twin": True, "stop_on_refute": True,
               "budget_s": 60})
    return cs
