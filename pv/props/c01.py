"""C01 -- instrumentation is transparent when nothing is overridden.

Differential symbolic execution: the real rewritten function (compiled by the real
transform / TransformSet, run through proceed / Interactor.interact) against an
untouched copy of the same template, on the same symbolic arguments.  Compared:
outcome kind, return value / exception, yielded sequence, ordered effect log,
final state of mutable arguments and module globals (returned by the drivers).
"""

from __future__ import annotations

from pv.corpus.templates import BY_NAME, TEMPLATES, generated

PROPERTY = "C01"

META = {
    "level": "model_checking",
    "technique": "differential bounded symbolic execution (CrossHair/z3) of the real rewritten code vs the untouched function",
    "functions": [
        "ptera.transform.transform (run natively on concrete input)", "ptera.transform.PteraTransformer.* (its output is executed symbolically)",
        "ptera.transform.TransformSet.transform_for", "ptera.transform.SyncedStackedTransforms.push/pop/_apply",
        "ptera.overlay.tooled / inplace / _tooler / _untooler / autotool", "ptera.overlay.proceed.__enter__/__exit__",
        "ptera.overlay.HandlerCollection.proceed", "ptera.interpret.Interactor.interact / WorkingFrame / Immediate / Total",
        "ptera.probe.probing / Probe._enter/_exit",
    ],
    "bounds": {
        "quick": {"ints": "unbounded (z3 Int)", "trip_counts": "<= 3 (per template `bound`)", "generator_driver_ops": 3,
                  "configs": "tooled, inplace, probe f>$x, singleton probes on <=3 variables, total probe, activate/deactivate"},
        "thorough": {"ints": "unbounded (z3 Int)", "trip_counts": "<= 3", "generator_driver_ops": 4,
                     "configs": "as quick + every singleton + every pair of the template's listed variables"},
    },
    "out_of_scope": [
        "programs outside the template catalogue (pv/corpus/templates.py) and the seeded generated compositions "
        "(pv/corpus/gen.py: 8 per quick run, 40 per thorough run, chosen by VERIF_SEED)", "async functions",
        "match statements (not among the statement forms the property lists; observed: names bound by match patterns "
        "are mis-classified as globals -> PteraNameError)",
        "bare annotations and globals rebound during the call (excluded by the property itself)",
        "exception message text (only the type, and args of the templates' own Boom)",
        "non-integer data (values are symbolic ints and containers of them)",
    ],
    "assumptions": [
        "ptera.transform.transform executed natively (concrete inputs)",
        "the untouched reference is a second exec of the same template source in a fresh namespace",
    ],
}


def _fn_holder(ns, tmpl):
    """(owner object or dict, attribute name, selector text) of the instrumented function."""
    q = tmpl["funcs"][0]
    if "." in q:
        cls, name = q.split(".")
        return ns[cls], name, q
    return ns, q, q


def _get_fn(ns, tmpl):
    owner, name, _ = _fn_holder(ns, tmpl)
    return owner[name] if isinstance(owner, dict) else owner.__dict__[name]


def _set_fn(ns, tmpl, fn):
    owner, name, _ = _fn_holder(ns, tmpl)
    if isinstance(owner, dict):
        owner[name] = fn
    else:
        setattr(owner, name, fn)


class _Cfg:
    """Context manager applying an instrumentation configuration to a namespace."""

    def __init__(self, ns, tmpl, cfg):
        self.ns, self.tmpl, self.cfg = ns, tmpl, cfg
        self.probe = None

    def __enter__(self):
        from ptera import probing, tooled

        ns, tmpl, cfg = self.ns, self.tmpl, self.cfg
        _, _, sel = _fn_holder(ns, tmpl)
        kind = cfg[0]
        if kind == "tooled":
            _set_fn(ns, tmpl, tooled(_get_fn(ns, tmpl)))
        elif kind == "inplace":
            tooled.inplace(_get_fn(ns, tmpl))
        elif kind == "probe":
            names = cfg[1]
            if names == ["$x"]:
                s = f"{sel} > $x"
            elif len(names) == 1:
                s = f"{sel} > {names[0]}"
            else:
                s = f"{sel}({', '.join(names[:-1])}) > {names[-1]}"
            self.probe = probing(s, env=ns)
            self.probe.__enter__()
        elif kind == "total":
            self.probe = probing(f"{sel}({cfg[1]})", env=ns, raw=True)
            self.probe.__enter__()
        elif kind == "actdeact":
            p = probing(f"{sel} > $x", env=ns)
            p.__enter__()
            p.__exit__(None, None, None)
        else:
            raise ValueError(cfg)
        return self

    def __exit__(self, *a):
        if self.probe is not None:
            self.probe.__exit__(None, None, None)
        return False


def _observe(ns, H, tmpl, ints, ops, vals):
    from pv.corpus.base import drive_gen, outcome

    a, b, c, d = ints
    if tmpl["gen"]:
        out = outcome(lambda: drive_gen(ns["drive"](a, b, c, d), ops, vals))
    else:
        out = outcome(lambda: ns["drive"](a, b, c, d))
    return out, list(H.log)


def _divergence(o, i):
    (oo, ol), (io, il) = o, i
    if oo[0] != io[0] or (oo[0] == "exc" and oo[1] != io[1]):
        cls = lambda x: x[0] if x[0] == "ok" else f"exc:{x[1]}"  # noqa: E731
        return f"orig={cls(oo)}:inst={cls(io)}"
    if oo != io:
        return "value"
    if ol != il:
        return "effects"
    return None


def build(case):
    from pv.corpus.base import load
    from pv.engine.xsym import pick, require

    p = case["params"]
    tmpl = BY_NAME[p["template"]]
    cfg = p["cfg"]
    L = p.get("L", 3)
    twin = bool(case.get("vacuity_twin"))
    cfgclass = cfg[0]

    def core(a, b, c, d, ops, vals):
        ns_o, H_o = load(tmpl)
        ns_i, H_i = load(tmpl)
        orig_code = _get_fn(ns_i, tmpl).__code__
        ref = _observe(ns_o, H_o, tmpl, (a, b, c, d), ops, vals)
        try:
            cm = _Cfg(ns_i, tmpl, cfg).__enter__()
        except Exception as e:  # instrumenting itself failed: the "call after instrumentation" cannot even start
            got = (("exc", f"instrumentation:{type(e).__name__}", None), [])
        else:
            try:
                got = _observe(ns_i, H_i, tmpl, (a, b, c, d), ops, vals)
            finally:
                cm.__exit__(None, None, None)
        if twin:
            require(ref[0][0] != "ok" or ref != got, "vacuity twin", {"fp": "twin"})
            return
        div = _divergence(ref, got)
        require(div is None, f"instrumented call differs from the untouched function ({div})",
                {"fp": f"C01:{tmpl['name']}:{div}", "cfg": cfg, "orig": ref, "inst": got})
        if cfgclass in ("probe", "total", "actdeact"):
            require(_get_fn(ns_i, tmpl).__code__ is orig_code,
                    "original code object not restored after the probe ended",
                    {"fp": f"C01:{tmpl['name']}:code-not-restored", "cfg": cfg})

    if tmpl["gen"]:
        if L == 3:
            def h_gen(a: int, b: int, c: int, d: int, o1: int, o2: int, o3: int, s1: int, s2: int, s3: int):
                ops = [pick(o1, 4), pick(o2, 4), pick(o3, 4)]
                core(a, b, c, d, ops, [s1, s2, s3])
            return h_gen

        def h_gen4(a: int, b: int, c: int, d: int, o1: int, o2: int, o3: int, o4: int,
                   s1: int, s2: int, s3: int, s4: int):
            ops = [pick(o1, 4), pick(o2, 4), pick(o3, 4), pick(o4, 4)]
            core(a, b, c, d, ops, [s1, s2, s3, s4])
        return h_gen4

    def h(a: int, b: int, c: int, d: int):
        core(a, b, c, d, None, None)

    return h


def _cfgs(tmpl, tier):
    vs = tmpl["vars"]
    out = [["tooled"], ["inplace"], ["probe", ["$x"]], ["actdeact"]]
    if vs:
        out.append(["total", vs[0]])
    singles = vs if tier == "thorough" else vs[:3]
    for v in singles:
        out.append(["probe", [v]])
    if tier == "thorough":
        for i in range(len(vs)):
            for j in range(len(vs)):
                if i < j:
                    out.append(["probe", [vs[i], vs[j]]])
    elif len(vs) >= 2:
        out.append(["probe", [vs[0], vs[-1]]])
    return out


def cases(tier, seed):
    cs = []
    L = 4 if tier == "thorough" else 3
    gens = generated(seed, 40 if tier == "thorough" else 8)
    for t in TEMPLATES + gens:
        cfgs = _cfgs(t, tier)
        if t.get("generated") and tier != "thorough":
            cfgs = [["tooled"], ["probe", ["$x"]], ["total", t["vars"][0]]] + [["probe", [v]] for v in t["vars"][:2]]
        for cfg in cfgs:
            cid = f"{t['name']}:{cfg[0]}" + (":" + "+".join(cfg[1]) if len(cfg) > 1 and isinstance(cfg[1], list)
                                              else (":" + cfg[1] if len(cfg) > 1 else ""))
            cs.append({"id": cid, "params": {"template": t["name"], "cfg": cfg, "L": L},
                       "budget_s": (900 if tier == "thorough" else 150) if t["gen"] else (300 if tier == "thorough" else 90)})
    for name in ("plain", "for_loop", "gen_loop"):
        cs.append({"id": f"{name}:tooled:twin", "params": {"template": name, "cfg": ["tooled"], "L": 3},
                   "vacuity_twin": True, "stop_on_refute": True, "budget_s": 60})
    return cs
