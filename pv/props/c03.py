"""C03 -- call-path selectors fire once per way the path matches the live call stack.

Three functions f/g/h call each other according to a *symbolic script* (so direct,
indirect, recursive calls, repeated siblings and exceptional exits are all reachable);
the real matching machinery (HandlerCollection.proceed, fits_selector, accumulator
fork/build, Immediate.log, proceed enter/exit) runs on it under a chain/sibling selector;
an independent matcher computes, from the twin's activation log, the embeddings of the
chain into the live stack at every focus binding and the context values they must carry.
"""

from __future__ import annotations

from pv.calltree import CTXVAR, Level, Spec

PROPERTY = "C03"

META = {
    "level": "model_checking",
    "technique": "bounded symbolic execution (CrossHair/z3) of selector matching over symbolic call-tree scripts vs an independent embedding matcher",
    "functions": [
        "ptera.overlay.HandlerCollection.proceed/plus", "ptera.overlay.fits_selector", "ptera.overlay.proceed.__enter__/__exit__",
        "ptera.selector.check_element", "ptera.interpret.BaseAccumulator.fork/build/getcap/_call_with_snapshot",
        "ptera.interpret.Immediate.log", "ptera.interpret.Interactor.register/interact", "ptera.overlay.BaseOverlay.__enter__/__exit__",
        "ptera.probe.Probe._emit",
    ],
    "bounds": {
        "quick": {"script_length": "<= 4 items over {return, call f, call g, call h, raise}", "values": "base + k, base an unbounded Int",
                  "selectors": "35 chain/sibling selectors up to depth 3"},
        "thorough": {"script_length": "<= 5 items over {return, call f, call g, call h, raise}", "values": "as quick",
                     "selectors": "as quick, both probing() and BaseOverlay(Immediate) on @tooled functions"},
    },
    "out_of_scope": ["call trees deeper/longer than the script bound", "the order in which the embeddings of one binding are delivered "
                     "(ptera delivers innermost-first; the property does not fix it: compared as multisets per binding)",
                     "generators in the call tree"],
    "assumptions": ["transform executed natively", "reference matcher (pv/calltree.py) written from the property statement"],
}


def L(fn, ctx=True, sibs=()):
    return Level(fn, [CTXVAR[fn]] if ctx else [], sibs)


SPECS = {
    "f>x": Spec([L("f", 0)]), "g>x": Spec([L("g", 0)]), "h>x": Spec([L("h", 0)]),
    "f(a)>x": Spec([L("f")]), "f>a": Spec([L("f", 0)], "a"), "h(x)>c": Spec([Level("h", ["x"])], "c"),
    "f>g>x": Spec([L("f", 0), L("g", 0)]), "f(a)>g>x": Spec([L("f"), L("g", 0)]), "f(a)>g(b)>x": Spec([L("f"), L("g")]),
    "g(b)>f(a)>x": Spec([L("g"), L("f")]), "f>h>x": Spec([L("f", 0), L("h", 0)]), "f(a)>h(c)>x": Spec([L("f"), L("h")]),
    "h(c)>g(b)>x": Spec([L("h"), L("g")]), "g(b)>h>c": Spec([L("g"), L("h", 0)], "c"),
    "f(a)>g(b)>h>x": Spec([L("f"), L("g"), L("h", 0)]), "f>g>h(c)>x": Spec([L("f", 0), L("g", 0), L("h")]),
    "f(a)>g(b)>h(c)>x": Spec([L("f"), L("g"), L("h")]), "h(c)>g(b)>f(a)>x": Spec([L("h"), L("g"), L("f")]),
    "f>f>x": Spec([L("f", 0), L("f", 0)]), "f(a)>f>x": Spec([L("f"), L("f", 0)]), "g>g>x": Spec([L("g", 0), L("g", 0)]),
    "f>f>f>x": Spec([L("f", 0), L("f", 0), L("f", 0)]), "f(a)>g>f>x": Spec([L("f"), L("g", 0), L("f", 0)]),
    "g(b)>f>g>x": Spec([L("g"), L("f", 0), L("g", 0)]), "f(a)>g(b)>g>x": Spec([L("f"), L("g"), L("g", 0)]),
    # sibling clauses: values gathered from calls made under the matched activation
    "f(g(b))>x": Spec([Level("f", [], [("g", "b")])]), "f(a,g(b))>x": Spec([Level("f", ["a"], [("g", "b")])]),
    "f(g(b))>h>x": Spec([Level("f", [], [("g", "b")]), L("h", 0)]),
    "f(a,g(b))>h(c)>x": Spec([Level("f", ["a"], [("g", "b")]), L("h")]),
    "f(g(b),h(c))>x": Spec([Level("f", [], [("g", "b"), ("h", "c")])]),
    "g(h(c))>f>x": Spec([Level("g", [], [("h", "c")]), L("f", 0)]),
    "f(a)>g(h(c))>x": Spec([L("f"), Level("g", [], [("h", "c")])]),
    "f(g(b))>f>x": Spec([Level("f", [], [("g", "b")]), L("f", 0)]),
    "g(b,h(c))>g>x": Spec([Level("g", ["b"], [("h", "c")]), L("g", 0)]),
    "h(f(a))>h>x": Spec([Level("h", [], [("f", "a")]), L("h", 0)]),
}


def build(case):
    from ptera import probing, tooled
    from ptera.interpret import Immediate
    from ptera.overlay import BaseOverlay
    from ptera.selector import select
    from pv.calltree import Env, expected_immediate, load_pair
    from pv.engine.xsym import pick, require

    p = case["params"]
    spec = SPECS[p["spec"]]
    mech = p["mech"]
    alpha = p["alpha"]
    twin = bool(case.get("vacuity_twin"))
    fpb = f"C03:{p['spec']}"

    def core(base, script):
        if p.get("first") is not None:
            from pv.engine.xsym import assume

            assume(pick(script[0], alpha) == p["first"])  # shard: the driver's first operation
        rec, ns_t, ns_i = load_pair(late=bool(p.get("late")))
        ns_t["drive"](Env(ns_t, script, base, alpha, pick))
        groups = expected_immediate(rec, spec)
        got = []
        text = spec.text()
        if mech == "probing":
            with probing(text, env=ns_i) as prb:
                prb.subscribe(lambda d: got.append(dict(d)))
                ns_i["drive"](Env(ns_i, script, base, alpha, pick))
        else:
            for n in "fgh":
                ns_i[n] = tooled(ns_i[n])
            sel = select(text, env=ns_i)
            with BaseOverlay(Immediate(sel, lambda caps: got.append({k: c.value for k, c in caps.items()}))):
                ns_i["drive"](Env(ns_i, script, base, alpha, pick))
        total = sum(len(g) for g in groups)
        if twin:
            require(not (total >= 2 and len(got) == total), "vacuity twin", {"fp": "twin"})
            return
        require(len(got) == total, f"{len(got)} events delivered, the chain matches the live stack in {total} ways "
                "(summed over all focus bindings)",
                {"fp": f"{fpb}:count:{'missing' if len(got) < total else 'extra'}", "selector": text})
        i = 0
        for grp in groups:
            chunk = got[i:i + len(grp)]
            i += len(grp)
            rest = list(grp)
            for ev in chunk:
                hit = None
                for j, ex in enumerate(rest):
                    if set(ex) == set(ev) and all(ev[k] == ex[k] for k in ex):
                        hit = j
                        break
                require(hit is not None, "an event carries values that belong to no embedding of the chain at that binding "
                        "(context taken from a wrong activation, or a sibling value from outside the matched activation)",
                        {"fp": f"{fpb}:wrong-context", "selector": text})
                rest.pop(hit)

    n = p["n"]
    from pv.engine.xsym import int_harness

    return int_harness(lambda base, *sc: core(base, list(sc)), ["base"] + [f"s{i}" for i in range(n)])


def cases(tier, seed):
    th = tier == "thorough"
    cs = []
    for i, name in enumerate(SPECS):
        mechs = ["probing", "overlay"] if th else (["probing"] if i % 3 else ["overlay"])
        for mech in mechs:
            cs.append({"id": f"{name}:{mech}", "params": {"spec": name, "mech": mech, "n": 5 if th else 4, "alpha": 5},
                       "budget_s": 3000 if th else 200, "per_path_s": 30})
    # late first binding of the outer context variables (bound only after the first nested call returned)
    late = ["f(a)>g(b)>h>x", "f(a)>g(b)>h(c)>x", "f(a)>x", "f(a)>g(b)>x", "f(a)>f>x", "f(a,g(b))>h(c)>x", "g(b)>f>g>x"]
    for i, name in enumerate(late if th else late[:5]):
        cs.append({"id": f"{name}:late", "params": {"spec": name, "mech": "probing" if i % 2 == 0 else "overlay", "n": 5 if (th or name.count(">") >= 3) else 4,
                                                   "alpha": 5 if th else 4, "late": True,
                                                   # quick, 5-item scripts: only those whose first operation calls f (every chain starts there)
                                                   "first": 1 if (not th and name.count(">") >= 3) else None},
                   "budget_s": 3000 if th else 200, "per_path_s": 30})
    cs.append({"id": "f(a)>g(b)>x:probing:twin", "params": {"spec": "f(a)>g(b)>x", "mech": "probing", "n": 4, "alpha": 4},
               "vacuity_twin": True, "stop_on_refute": True, "budget_s": 100})
    cs.append({"id": "f>f>x:probing:twin", "params": {"spec": "f>f>x", "mech": "probing", "n": 4, "alpha": 4},
               "vacuity_twin": True, "stop_on_refute": True, "budget_s": 100})
    return cs
