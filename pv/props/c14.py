"""C14 -- absolute references keep resolving to the same function across probing.

A generated module (real file, so that codefind can index it) holds a module-level
function, a method, a method of a nested class, a function defined inside a function and a
decorated function.  A symbolic operation list over {activate a probe by name, activate a
probe by reference string, deactivate either, call, resolve the reference} runs on the real
code; after every `resolve`, select(refstring(fn) + ' > x').element.name must be that very
function, and at every call the probe activated by reference must receive exactly what the
one activated by name receives (closed-form reference).
"""

from __future__ import annotations

PROPERTY = "C14"

META = {
    "level": "model_checking",
    "technique": "bounded symbolic execution (CrossHair/z3) of probe/resolve histories over a generated module",
    "functions": [
        "ptera.utils.refstring/_extract_info/_verify_existence/_build_refstring", "ptera.selector.dict_resolver (slash branch)/_resolve/_dig",
        "ptera.transform.SyncedStackedTransforms._apply (codefind cache update)", "ptera.transform.TransformSet._set_base/transform_for",
        "ptera.transform.transform (code_registry.assimilate)", "codefind.find_code/get_functions (real, run natively)",
        "ptera.probe.Probe._enter/_exit",
    ],
    "bounds": {"quick": {"history_length": "<= 4 operations over 7 kinds (incl. probing the enclosing function `make`)", "placements": 5},
               "thorough": {"history_length": "<= 5", "placements": 5}},
    "out_of_scope": ["modules other than the generated one", "functions redefined at run time (jurigged-style hot patching)",
                     "two probed functions in one history"],
    "assumptions": ["transform and codefind lookups executed natively (concrete data)",
                    "one generated module per worker, re-generated after a path found the registry corrupted"],
}

MOD_SRC = '''
import functools

def top(v):
    w = v * 2
    x = v + 1
    return x

class K:
    def meth(self, v):
        w = v * 2
        x = v + 2
        return x

    class Inner:
        def im(self, v):
            w = v * 2
            x = v + 3
            return x

def make():
    k = 4
    def inner(v):
        w = v * 2
        x = v + k
        return x
    return inner

inner = make()

def deco(fn):
    @functools.wraps(fn)
    def wrapper(*a, **k):
        return fn(*a, **k)
    return wrapper

@deco
def decorated(v):
    w = v * 2
    x = v + 5
    return x
'''

# placement -> (selector by name, how to get the target function, how to call, offset)
PLACEMENTS = {
    "top": ("top > x", lambda m: m.top, lambda m, v: m.top(v), 1),
    "method": ("K.meth > x", lambda m: m.K.__dict__["meth"], lambda m, v: m.K().meth(v), 2),
    "nested_class": ("K.Inner.im > x", lambda m: m.K.Inner.__dict__["im"], lambda m, v: m.K.Inner().im(v), 3),
    "closure": ("inner > x", lambda m: m.inner, lambda m, v: m.inner(v), 4),
    "decorated": ("decorated > x", lambda m: m.decorated.__wrapped__, lambda m, v: m.decorated(v), 5),
}

_DIR = None
_N = [0]
_MOD = [None]


def _module():
    """The generated module of this worker.  It is re-generated (fresh function and code objects, fresh
    registry entries) only after a path found the registry corrupted, so that one defect is reported
    by the history that causes it and does not leak into the following paths."""
    global _DIR
    if _MOD[0] is not None:
        return _MOD[0]
    import importlib
    import os
    import sys

    if _DIR is None:
        import atexit
        import shutil
        import tempfile

        _DIR = tempfile.mkdtemp(prefix="pv_c14_")
        atexit.register(shutil.rmtree, _DIR, True)
        sys.path.insert(0, _DIR)
    _N[0] += 1
    name = f"pv_c14mod_{os.getpid()}_{_N[0]}"
    with open(os.path.join(_DIR, name + ".py"), "w") as f:
        f.write(MOD_SRC)
    importlib.invalidate_caches()
    _MOD[0] = importlib.import_module(name)
    return _MOD[0]


def build(case):
    import contextvars

    from crosshair.tracers import NoTracing
    from ptera import probing, refstring
    from ptera.probe import global_probes
    from ptera.selector import select
    from pv.engine.xsym import assume, int_harness, pick, require

    p = case["params"]
    twin = bool(case.get("vacuity_twin"))
    placement = p["placement"]
    first = p.get("first")
    n = p["n"]
    by_name, get_fn, call, off = PLACEMENTS[placement]
    fpb = f"C14:{placement}"

    def run(base, ops):
        with NoTracing():
            mod = _module()
        target = get_fn(mod)
        env = vars(mod)
        with NoTracing():
            # every path starts from functions that have never been instrumented (no cached code variants):
            # what a history compiles for the first time must not depend on the paths explored before it
            import sys as _sys

            for mname, m_ in list(_sys.modules.items()):
                if mname == "ptera" or mname.startswith("ptera."):
                    for obj in list(vars(m_).values()):
                        if callable(getattr(obj, "cache_clear", None)):
                            obj.cache_clear()  # memo tables (functools caches) must not carry one history into the next
            for fn_ in [gf(mod) for _t, gf, _c, _o in PLACEMENTS.values()] + [mod.make]:
                st_ = getattr(fn_, "__ptera_stack__", None)
                if st_ is not None and st_.instrument_count == 0:
                    del fn_.__ptera_stack__
        probes = {"name": None, "ref": None, "other": None}
        lists = {"name": [], "ref": []}
        nres = 0
        try:
            for step, opsym in enumerate(ops):
                op = pick(opsym, 8)
                if step == 0 and first is not None:
                    assume(op == first)
                if op == 0:
                    break
                active = [k for k in ("name", "ref") if probes[k] is not None]
                sit = "while-probed" if active else ("enclosing-function-probed" if probes["other"] is not None else "unprobed")
                if op == 7:  # toggle a probe on another function of the module: `make`, which encloses `inner`
                    with NoTracing():
                        if probes["other"] is None:
                            probes["other"] = probing(select("make > k", env=env))
                            probes["other"].__enter__()
                        else:
                            probes["other"].__exit__(None, None, None)
                            probes["other"] = None
                    continue
                if op in (1, 2):
                    kind = "name" if op == 1 else "ref"
                    assume(probes[kind] is None)
                    with NoTracing():
                        try:
                            # the probe by reference focuses `w`, the probe by name `x`: two different capture sets
                            text = by_name if kind == "name" else refstring(target) + " > w"
                            sel = select(text, env=env)
                            pr = probing(sel)
                            pr.__enter__()
                            err = None
                        except Exception as e:  # noqa
                            err = e
                    if err is not None:
                        if not twin:
                            require(False, f"activating a probe by {kind} failed ({sit}): {type(err).__name__}",
                                    {"fp": f"{fpb}:activate-by-{kind}:{sit}:{type(err).__name__}"})
                        assume(False)
                    probes[kind] = pr
                    pr.subscribe(lambda d, kind=kind: lists[kind].append(d["x" if kind == "name" else "w"]))
                    if not twin:
                        require(sel.element.name is target, f"selector by {kind} resolved to another function object ({sit})",
                                {"fp": f"{fpb}:activate-by-{kind}:{sit}:wrong-function"})
                elif op in (3, 4):
                    kind = "name" if op == 3 else "ref"
                    assume(probes[kind] is not None)
                    with NoTracing():
                        probes[kind].__exit__(None, None, None)
                    probes[kind] = None
                elif op == 5:
                    v = base + step
                    before = {k: len(lists[k]) for k in lists}
                    rv = call(mod, v)
                    if twin:
                        continue
                    require(rv == v + off, "call returned a wrong value", {"fp": f"{fpb}:return-value"})
                    for k in lists:
                        new = lists[k][before[k]:]
                        exp = ([v + off] if k == "name" else [v * 2]) if probes[k] is not None else []
                        require(len(new) == len(exp) and all(a == b for a, b in zip(new, exp)),
                                f"the probe activated by {k} did not receive exactly the binding of this call ({sit})",
                                {"fp": f"{fpb}:events-by-{k}:{'extra' if len(new) > len(exp) else 'missing-or-wrong'}:{sit}"})
                else:  # 6: resolve the reference
                    nres += 1
                    with NoTracing():
                        try:
                            ref = refstring(target)
                            sel = select(ref + " > x", env=env)
                            got, err = sel.element.name, None
                        except Exception as e:  # noqa
                            got, err = None, e
                    if twin:
                        continue
                    require(err is None, f"resolving the absolute reference failed ({sit}): {type(err).__name__}",
                            {"fp": f"{fpb}:resolve:{sit}:{type(err).__name__}"})
                    require(got is target, f"the absolute reference resolved to another function object ({sit})",
                            {"fp": f"{fpb}:resolve:{sit}:wrong-function"})
            if twin:
                require(not (nres >= 1 and len(lists["name"]) >= 1), "vacuity twin", {"fp": "twin"})
        finally:
            with NoTracing():
                for k in ("other", "ref", "name"):
                    if probes[k] is not None:
                        try:
                            probes[k].__exit__(None, None, None)
                        except Exception:
                            pass
                global_probes.clear()
        # ---- after the history: every reference of the module still resolves to its function
        with NoTracing():
            bad = None
            for pl, (_t, gf, _c, _o) in PLACEMENTS.items():
                fn = gf(mod)
                try:
                    got = select(refstring(fn) + " > x", env=env).element.name
                    if got is not fn:
                        bad = (pl, "wrong-function")
                except Exception as e:  # noqa
                    bad = (pl, type(e).__name__)
                if bad:
                    break
            if bad:
                _MOD[0] = None  # tainted: the next path gets a fresh module
        if not twin:
            require(bad is None, f"after the history (all probes deactivated) the reference of `{bad and bad[0]}` no longer "
                    f"resolves to its function: {bad and bad[1]}",
                    {"fp": f"C14:{bad and bad[0]}:resolve-after-history:{bad and bad[1]}", "probed": placement})

    def wrap(base, *ops):
        contextvars.copy_context().run(run, base, list(ops))

    return int_harness(wrap, ["base"] + [f"o{i}" for i in range(n)])


def cases(tier, seed):
    th = tier == "thorough"
    n = 5 if th else 4
    cs = []
    for pl in PLACEMENTS:
        for first in (1, 2, 5, 6, 7):
            cs.append({"id": f"{pl}:first={first}", "params": {"placement": pl, "n": n, "first": first},
                       "budget_s": 5000 if th else 250, "per_path_s": 30})
    cs.append({"id": "top:twin", "params": {"placement": "top", "n": 5, "first": 1}, "vacuity_twin": True,
               "stop_on_refute": True, "budget_s": 100})
    return cs
