"""C15 -- the documented selector notations are interchangeable.

Every documented law is a pair (or triple) of token-list builders over operand holes; the
holes (function operand, focus operand, context operand, embedding context) and the
whitespace between tokens are chosen by a symbolic vector; both spellings go through the
real lexer / operator-precedence parser / evaluation actions and must compile to the *same
object* (interned), with the focus being the variable marked `!` / standing after the last
`>`.  (Z) For every operator of the live OPERATOR regex, z3's regex theory shows that the
operator surrounded by any amount of whitespace is still one OPERATOR match (re-spacing law
for unbounded whitespace).
"""

from __future__ import annotations

PROPERTY = "C15"

META = {
    "level": "model_checking",
    "technique": "solver-enumerated operand/whitespace choice vectors through the real parser (identity of interned results) + z3 regex inclusion for re-spacing",
    "functions": [
        "ptera.opparse.Lexer.__call__/Parser.process/finalize/OperatorPrecedenceTower", "ptera.selector.parser (priority tower)",
        "ptera.selector.make_nested_imm/make_focus/make_as/make_equals/make_dollar/make_class/make_call_capture/make_symbol/"
        "make_group/_guarantee_call", "ptera.selector.InternedMC.__call__", "ptera.selector.Element/Call (main, focus, encode)",
    ],
    "bounds": {"quick": {"function_operands": 3, "focus_operands": 14, "context_operands": 6, "embedding_contexts": 5,
                         "whitespace": "one of 5 gap styles globally + (laws without context/second function operand) one gap (position <= 5) "
                                       "empty or newline",
                         "intervening_selectors_for_identity": 3000},
               "thorough": {"as quick": True, "whitespace": "5 global styles x one gap (position <= 12) in any of the 5 styles (laws with one operand hole), "
                                          "empty/newline (two holes), global style only (three holes)"}},
    "out_of_scope": ["operands outside the listed alphabets", "selectors deeper than the embedding contexts",
                     "whitespace inside words / string literals"],
    "assumptions": ["strings are concrete once the vector is chosen; parse runs natively: the solver enumerates the finite choice space",
                    "\\\\s modelled as ASCII whitespace and \\\\b dropped in the regex queries"],
}

FUNCS = ["f", "g", "mod.fn", "a1_b"]
FOCUS = ["x", "x as y", "x:@T", "x=1", "x~p", "x:@T=1", "x as y:@T", "#value", "#enter", "#value as r", "x:@T~p", "x='s'",
         "x as y=1", "x.attr"]
GENERIC_SUFFIX = ["", ":@T", ":T=3", "=1", "~p", ":@T=1"]
CTX = ["a", "a as b", "a:@T", "a=1", "$a", "#enter"]
GAPS = ["", " ", "  ", "\n", "\t "]
WORDY = lambda t: t[0].isalnum() or t[0] in "#@*'_" or t == "as"  # noqa: E731


def tok(s):
    """Split a spelling written with single spaces between tokens into tokens."""
    return s.split(" ")


# each law: name -> list of alternative spellings as token strings (tokens separated by single spaces);
# {F} function operand, {V} focus operand, {A} context operand, {G}/{H} further functions
LAWS = {
    "nest-vs-focus": ["{F} > {V}", "{F} ( ! {V} )"],
    "ctx-nest-vs-focus": ["{F} ( {A} ) > {V}", "{F} ( {A} , ! {V} )"],
    "chain3": ["{F} > {G} > {V}", "{F} > ( {G} > {V} )", "{F} ( {G} ( ! {V} ) )"],
    "chain3-ctx": ["{F} ( {A} ) > {G} > {V}", "{F} ( {A} ) > ( {G} > {V} )", "{F} ( {A} , {G} ( ! {V} ) )"],
    "call-as": ["{F} ( ) as r", "{F} ( ! #value as r )"],
    "call-as-ctx": ["{F} ( {A} ) as r", "{F} ( {A} , ! #value as r )"],
    "call-eq": ["{F} ( {A} ) = 3", "{F} ( {A} , #value = 3 )"],
    "nested-call-as": ["{G} > {F} ( ) as r", "{G} > {F} ( ! #value as r )", "{G} ( {F} ( ! #value as r ) )"],
    "nested-call-as-ctx": ["{G} ( {A} ) > {F} ( {A} ) as r", "{G} ( {A} ) > {F} ( {A} , ! #value as r )",
                           "{G} ( {A} , {F} ( {A} , ! #value as r ) )"],
    "dollar": ["{F} > $ x{S}", "{F} > * as x{S}"],
    "dollar-in-call": ["{F} ( ! $ x{S} )", "{F} ( ! * as x{S} )"],
    "dollar-ctx": ["{F} ( $ x{S} ) > {V}", "{F} ( * as x{S} ) > {V}"],
    "dollar-bare": ["$ x{S}", "* as x{S}"],
}


def suffix_tokens(sfx):
    out = []
    cur = ""
    for ch in sfx:
        if ch in ":=~":
            if cur:
                out.append(cur)
            out.append(ch)
            cur = ""
        else:
            cur += ch
    if cur:
        out.append(cur)
    return out


def operand_tokens(op):
    out = []
    for part in op.split(" "):
        cur = ""
        for ch in part:
            if ch in ":=~$!":
                if cur:
                    out.append(cur)
                out.append(ch)
                cur = ""
            else:
                cur += ch
        if cur:
            out.append(cur)
    return out


def render(tokens, style, pos, local):
    s = ""
    for i, t in enumerate(tokens):
        if i > 0:
            g = GAPS[local] if i - 1 == pos else GAPS[style]
            if g == "" and WORDY(tokens[i - 1]) and WORDY(t):
                g = " "  # two words need a separator
            s += g
        s += t
    return s


def run_special(case):
    """Engine Z: ws* op ws* is (entirely) one OPERATOR match, for unbounded whitespace."""
    import time

    import z3
    from ptera.selector import parser
    from pv.engine.zsmt import sre_to_z3

    rx = next(r for r, t in parser.lexer.definitions.items() if t == "OPERATOR")
    R, notes = sre_to_z3(rx)
    ws = z3.Star(z3.Union(*[z3.Re(c) for c in " \t\n\r\f\v"]))
    ops = ["as", ">>", ">", "!", "!!", "[[", "]]", "(", ")", "{", "}", "[", "]", ":", ",", "$", "=", "~"]
    queries, cex = [], []
    x = z3.String("x")
    for op in ops:
        s = z3.Solver()
        s.set("timeout", 20000)
        s.add(z3.InRe(x, z3.Concat(ws, z3.Re(op), ws)), z3.Not(z3.InRe(x, R)))
        t0 = time.perf_counter()
        r = str(s.check())
        q = {"name": f"ws* {op} ws* subset of L(OPERATOR)", "z3": r, "z3_s": round(time.perf_counter() - t0, 4),
             "status": "proved" if r == "unsat" else ("refuted" if r == "sat" else "inconclusive")}
        if r == "sat":
            w = s.model()[x].as_string()
            cex.append({"args": {"op": op, "witness": w, "regex": rx}, "kind": "property",
                        "message": f"re-spaced operator {op!r} is not one OPERATOR token", "detail": {"fp": f"C15:z:respacing:{op}"}})
        queries.append(q)
    proved = sum(1 for q in queries if q["status"] == "proved")
    inconcl = [q["name"] for q in queries if q["status"] == "inconclusive"]
    return {"paths": len(queries), "confirmed": proved, "refuted": len(cex), "unknown": len(inconcl), "ignored": 0,
            "exhausted": not inconcl, "timed_out": False, "z3_calls": len(queries), "z3_secs": sum(q["z3_s"] for q in queries),
            "z3_unsat": proved, "z3_sat": len(cex), "z3_unknown": len(inconcl), "obligations": len(queries),
            "counterexamples": cex, "samples": queries[:3], "queries": {"n": len(queries), "proved": proved, "inconclusive": inconcl,
                                                                      "notes": notes[:2]}}


def replay_special(case, args):
    import re

    m = re.fullmatch(args["regex"], args["witness"])
    return m is None, f"re.fullmatch(OPERATOR, {args['witness']!r}) -> {m}", f"C15:z:respacing:{args['op']}"


def build(case):
    from crosshair.tracers import NoTracing
    from pv.engine.xsym import assume, int_harness, pick, require

    p = case["params"]
    twin = bool(case.get("vacuity_twin"))
    law = p["law"]
    alts = LAWS[law]
    stress = p.get("stress", False)
    wide = p.get("wide", True)  # quick tier: reduced whitespace dimension
    fshard = p.get("fshard")

    def run(fsel, gsel, vsel, asel, ssel, style, pos, local):
        from ptera.selector import Call, Element, parse

        if fshard is not None:
            assume(fsel == fshard)
        if stress:  # one representative instance per style (the 3000 intervening parses dominate the cost)
            assume(fsel == 0 and gsel == 0 and asel == 0 and ssel == 0 and pos == 0 and local == 0 and style == 1)
            assume(0 <= vsel < 3)
        F, G = FUNCS[pick(fsel, len(FUNCS))], FUNCS[pick(gsel, len(FUNCS))]
        uses = "".join(alts)
        if "{G}" not in uses:
            assume(gsel == 0)
        V = FOCUS[pick(vsel, len(FOCUS))] if "{V}" in uses else FOCUS[0]
        if "{V}" not in uses:
            assume(vsel == 0)
        A = CTX[pick(asel, len(CTX))] if "{A}" in uses else CTX[0]
        if "{A}" not in uses:
            assume(asel == 0)
        S = GENERIC_SUFFIX[pick(ssel, len(GENERIC_SUFFIX))] if "{S}" in uses else ""
        if "{S}" not in uses:
            assume(ssel == 0)
        st = pick(style, len(GAPS))
        nholes = sum(1 for hname in ("{V}", "{A}", "{G}", "{S}") if hname in uses)
        if (wide and nholes >= 2) or nholes >= 3:  # large operand spaces: one global gap style only
            assume(pos == 0 and local == 0)
            ps, lc = -1, 0
        elif not wide and nholes == 2:
            ps, lc = pick(pos, 13), [0, 3][pick(local, 2)]
        else:
            ps, lc = pick(pos, 13 if not wide else 6), (pick(local, len(GAPS)) if not wide else [0, 3][pick(local, 2)])


        def toks(tmpl):
            out = []
            for t in tok(tmpl):
                if t == "{F}":
                    out += operand_tokens(F)
                elif t == "{G}":
                    out += operand_tokens(G)
                elif t == "{V}":
                    out += operand_tokens(V)
                elif t == "{A}":
                    out += operand_tokens(A)
                elif t.endswith("{S}"):
                    out += [t[:-3]] + suffix_tokens(S)
                else:
                    out.append(t)
            return out

        with NoTracing():
            canon = [render(toks(a), 1, -1, 1) for a in alts]
            spaced = render(toks(alts[0]), st, ps, lc)
            results, errors = [], []
            for s in canon + [spaced]:
                try:
                    results.append(parse(s))
                    errors.append(None)
                except SyntaxError as e:
                    results.append(None)
                    errors.append("SyntaxError")
                except Exception as e:  # noqa
                    results.append(None)
                    errors.append(type(e).__name__)
            if stress:
                first = parse(canon[0])
                for i in range(3000):
                    parse(f"zz{i}(qq{i}) > ww{i}")
                again = [parse(s) for s in canon]
            same_err = len(set(errors)) == 1
            ok = all(e is None for e in errors)
            ident = ok and all(r is results[0] for r in results)
            focus_ok = True
            if ok and law not in ("dollar-bare",):
                main = results[0].main if isinstance(results[0], (Call, Element)) else None
                want = "r" if (law.startswith("call-as") or law.startswith("nested-call-as")) else ("#value" if law == "call-eq" else None)
                if law in ("nest-vs-focus", "ctx-nest-vs-focus", "chain3", "chain3-ctx", "dollar-ctx"):
                    vt = operand_tokens(V)
                    want = vt[vt.index("as") + 1] if "as" in vt else vt[0]
                if law in ("dollar", "dollar-in-call"):
                    want = "x"
                if law == "call-eq":
                    focus_ok = main is None
                else:
                    focus_ok = main is not None and main.capture == want and main.focus
        if twin:
            require(not (ident and focus_ok and "{V}" in uses), "vacuity twin", {"fp": "twin"})
            return
        # spellings that are not selectors at all must be rejected alike (then the law is vacuous for this operand)
        require(same_err or not any(e not in (None, "SyntaxError") for e in errors),
                "equivalent spellings fail differently", {"fp": f"C15:{law}:different-errors", "strings": canon + [spaced],
                                                          "errors": errors})
        if not ok:
            require(all(e is not None for e in errors[:len(canon)]) or all(e is None for e in errors[:len(canon)]),
                    "one documented spelling compiles and its equivalent does not",
                    {"fp": f"C15:{law}:one-spelling-rejected", "strings": canon, "errors": errors})
            require(errors[-1] == errors[0], "a re-spaced selector is accepted/rejected differently",
                    {"fp": f"C15:{law}:respacing-changes-validity", "strings": [canon[0], spaced]})
            return
        for i in range(1, len(canon)):
            require(results[i] is results[0], "two documented spellings compile to different selectors",
                    {"fp": f"C15:{law}:spellings-differ", "strings": [canon[0], canon[i]],
                     "encoded": [results[0].encode() if hasattr(results[0], "encode") else str(results[0]),
                                 results[i].encode() if hasattr(results[i], "encode") else str(results[i])]})
        require(results[-1] is results[0], "re-spacing a selector changes what it compiles to",
                {"fp": f"C15:{law}:respacing", "strings": [canon[0], spaced]})
        require(focus_ok, "the focus is not the variable marked ! / standing after the last >",
                {"fp": f"C15:{law}:focus", "string": canon[0]})
        if stress:
            require(all(a is first for a in again), "structurally equal selectors compiled at different times are not the same object",
                    {"fp": f"C15:{law}:identity-over-time"})

    return int_harness(run, ["fsel", "gsel", "vsel", "asel", "ssel", "style", "pos", "local"])


def cases(tier, seed):
    th = tier == "thorough"
    cs = [{"id": "z:respacing", "kind": "zsmt", "params": {}}]
    for law in LAWS:
        for fshard in range(len(FUNCS) if th else 3):
            cs.append({"id": f"{law}:F={FUNCS[fshard]}", "params": {"law": law, "wide": not th, "fshard": fshard},
                       "budget_s": 6000 if th else 280})
    cs.append({"id": "identity-over-time", "params": {"law": "nest-vs-focus", "stress": True}, "budget_s": 600})
    cs.append({"id": "nest-vs-focus:twin", "params": {"law": "nest-vs-focus"}, "vacuity_twin": True, "stop_on_refute": True,
               "budget_s": 60})
    return cs
