"""C10 -- every name a function binds or reads is selectable; absent names are refused.

A skeleton function is filled by a symbolic choice vector: each slot picks one binding /
reading form (parameter kinds, plain / tuple / augmented / annotated assignment, for, with,
except, import, walrus, nested def, nested class, global declaration, read, read inside a
nested function, lambda, comprehension) and a name; the source is generated, compiled, and
the real probing('f > v').__enter__() (autotool -> ExternalVariableCollector -> transform ->
verify -> Call.problems) runs for a probed identifier.  Oracle: Python's own symtable of the
same source: activation must succeed iff v is a parameter / local / free variable / global
read of f, with matching provenance; names occurring nowhere must be refused with
SelectorError; non-functions with TypeError.
"""

from __future__ import annotations

PROPERTY = "C10"

META = {
    "level": "model_checking",
    "technique": "solver-enumerated program-shape choice vectors through the real activation path, oracle = Python's symtable",
    "functions": [
        "ptera.transform.ExternalVariableCollector.*", "ptera.transform.transform (info table)", "ptera.selector.Call.problems/verify",
        "ptera.overlay.autotool/_tooler/fits_selector", "ptera.probe.Probe._enter/_install_tooling",
    ],
    "bounds": {"quick": {"slots": "slot 1: 36 forms x 3 names; slot 2: 10 forms x 2 names; optional extra read", "probed_identifiers": 8},
               "thorough": {"slots": "2 free slots x 37 forms x 3 names + optional extra read of any name", "probed_identifiers": 8}},
    "out_of_scope": ["names that occur only inside nested scopes of f (lambda parameters, comprehension variables, locals of nested "
                     "functions): Python does not report them for f and they are not fresh either -- not asserted",
                     "a name that is the iteration variable of a list/set/dict comprehension in f whenever CPython's symtable gives a "
                     "different verdict for the inlined (PEP 709) and the generator-expression form of the same program",
                     "programs outside the slot grammar"],
    "assumptions": ["nothing arithmetic is decided: the solver enumerates the finite choice vector and certifies exhaustion; "
                    "program text is concrete once chosen (registered in linecache)"],
}

NAMES = ["p", "q", "c"]
# form -> (kind, template).  kind 'param' contributes to the signature, 'stmt' to the body.
FORMS = [
    ("none", ""), ("param", "{N}"), ("param", "{N}=1"), ("kwonly", "{N}"), ("vararg", "*{N}"), ("kwarg", "**{N}"),
    ("stmt", "{N} = 1"), ("stmt", "{N}, _t = 1, 2"), ("stmt", "{N}: int = 1"), ("stmt", "{N} = 0\n{N} += 1"),
    ("stmt", "for {N} in ():\n    pass"), ("stmt", "with _cm() as {N}:\n    pass"),
    ("stmt", "try:\n    pass\nexcept Exception as {N}:\n    pass"), ("stmt", "import os as {N}"),
    ("stmt", "from os import path as {N}"), ("stmt", "if ({N} := 1):\n    pass"), ("stmt", "def {N}():\n    pass"),
    ("stmt", "class {N}:\n    pass"), ("stmt", "global {N}\n{N} = 1"), ("stmt", "_r = {N}"),
    ("stmt", "def _h():\n    return {N}"), ("stmt", "_l = lambda: {N}"), ("stmt", "_k = [{N} for {N} in ()]"),
    ("stmt", "try:\n    pass\nexcept Exception:\n    {N} = 1"), ("stmt", "try:\n    pass\nfinally:\n    {N} = 1"),
    ("stmt", "while False:\n    {N} = 1\nelse:\n    pass"), ("stmt", "with _cm():\n    {N} = 1"),
    ("stmt", "import xml.dom"),
    # bindings that belong to a scope nested in f, not to f
    ("stmt", "def _g({N}):\n    pass"), ("stmt", "_m = lambda {N}: 0"), ("stmt", "def _g():\n    {N} = 1"),
    ("stmt", "class _K:\n    {N} = 1"), ("stmt", "_w = [({N} := 1) for _i in ()]"), ("stmt", "_s = {{N}: 0 for {N} in ()}"),
    ("stmt", "_v = [[({N} := 1) for _i in ()] for _j in ()]"),
    # declarations inside the body of an except clause
    ("stmt", "try:\n    pass\nexcept Exception:\n    global {N}\n    _q = {N}"),
    ("stmt", "try:\n    pass\nexcept Exception:\n    nonlocal {N}\n    {N} = 1"),
]
PROBED = NAMES + ["zz", "xml", "#value", "#val", "#exit2"]


def gen(slots, reader):
    """slots: list of (form index, name index); reader: name index or None -> module source."""
    params, kwonly, var, kw, body = [], [], None, None, []
    for fi, ni in slots:
        kind, t = FORMS[fi]
        t = t.replace("{N}", NAMES[ni])
        if kind == "param":
            params.append(t)
        elif kind == "kwonly":
            kwonly.append(t)
        elif kind == "vararg":
            var = t
        elif kind == "kwarg":
            kw = t
        elif kind == "stmt":
            body.append(t)
    if reader is not None:
        body.append(f"_x = {NAMES[reader]}")
    # defaults must follow non-defaults
    params.sort(key=lambda s: "=" in s)
    sig = params[:]
    if var:
        sig.append(var)
    elif kwonly:
        sig.append("*")
    sig += kwonly
    if kw:
        sig.append(kw)
    lines = ["import contextlib", "_cm = contextlib.nullcontext", "p = q = 0", "def outer():", "    c = 0", "    d = 0",
             f"    def f({', '.join(sig)}):"]
    for st in body:
        for ln in st.split("\n"):
            lines.append("        " + ln)
    lines += ["        _z = d", "        return 0", "    return f", "f = outer()"]
    return "\n".join(lines) + "\n"


def _uninlined(src):
    """The same program with every list/set/dict comprehension written as a generator expression: same scoping by
    the language definition, but CPython >= 3.12 does not inline generator expressions, so symtable shows the scopes the
    language defines instead of the hidden locals PEP 709 inlining adds to the enclosing function."""
    import ast

    class T(ast.NodeTransformer):
        def visit_ListComp(self, node):
            self.generic_visit(node)
            return ast.GeneratorExp(elt=node.elt, generators=node.generators)

        visit_SetComp = visit_ListComp

        def visit_DictComp(self, node):
            self.generic_visit(node)
            return ast.GeneratorExp(elt=ast.Tuple(elts=[node.key, node.value], ctx=ast.Load()), generators=node.generators)

    return ast.unparse(ast.fix_missing_locations(T().visit(ast.parse(src))))


def oracle(src, name):
    """Python's verdict: None if `name` is not a name of f's own scope, else the provenance; 'unasserted' when the
    verdict depends on comprehension inlining (the iteration variable of an inlined comprehension is a hidden local of f
    for symtable -- and, on CPython 3.12.1, even for a nested function reading the same name -- but not for the language)."""
    raw = _oracle(src, name)
    if "for " + name + " in ()" not in src:
        return raw
    return raw if _oracle(_uninlined(src), name) == raw else "unasserted"


def _oracle(src, name):
    import symtable

    top = symtable.symtable(src, "<c10>", "exec")
    outer = next(t for t in top.get_children() if t.get_name() == "outer")
    ft = next(t for t in outer.get_children() if t.get_name() == "f")
    try:
        sym = ft.lookup(name)
    except KeyError:
        return None
    if sym.is_parameter():
        return "argument"
    if sym.is_free():
        return "closure"
    if sym.is_global():
        return "external" if not (sym.is_assigned() or sym.is_imported()) else "global-assigned"
    if sym.is_local():
        return "body"
    return None


def build(case):
    from crosshair.tracers import NoTracing
    from pv.engine.xsym import assume, int_harness, pick, require

    p = case["params"]
    twin = bool(case.get("vacuity_twin"))

    if p["kind"] == "nonfunction":
        def h_nf(sel: int):
            from ptera import probing
            from ptera.selector import SelectorError

            k = pick(sel, 5)
            env = {"obj": [3, len, int, type("K", (), {"x": 1})(), None][k]}
            with NoTracing():
                try:
                    pr = probing("obj > x", env=env)
                    pr.__enter__()
                    pr.__exit__(None, None, None)
                    res = "activated"
                except TypeError:
                    res = "TypeError"
                except SelectorError:
                    res = "SelectorError"
                except Exception as e:  # noqa
                    res = type(e).__name__
            if twin:
                require(res != "TypeError", "vacuity twin", {"fp": "twin"})
                return
            require(res in ("TypeError", "SelectorError"), f"probing a non-function ({['int', 'builtin', 'class', 'instance', 'None'][k]}) "
                    f"gave {res}", {"fp": f"C10:nonfunction:{['int', 'builtin', 'class', 'instance', 'None'][k]}:{res}"})

        return h_nf

    nslots = p["slots"]
    f0 = p.get("f0")
    small = p.get("small", False)

    def run(*a):
        from ptera import probing
        from ptera.selector import SelectorError
        from pv.refinst import load_source

        probed = PROBED[pick(a[2 * nslots + 1], len(PROBED))]
        special = probed.startswith("#") or probed == "xml"
        slots = []
        for j in range(nslots):
            fi = pick(a[2 * j], len(FORMS))
            if j == 0 and f0 is not None:
                assume(fi == f0)
            if small and j >= 1:
                # quick tier: later slots use the forms that interact with an earlier binding of the same name
                assume(FORMS[fi][1] in ("", "{N}", "{N} = 1", "for {N} in ():\n    pass", "def {N}():\n    pass",
                                        "class {N}:\n    pass", "global {N}\n{N} = 1", "_r = {N}", "def _h():\n    return {N}",
                                        "_k = [{N} for {N} in ()]"))
            if special and j >= 1:
                assume(fi == 0)  # meta-variables / the dotted-import name do not depend on the other slots
            if special and j == 0 and probed == "xml":
                assume(FORMS[fi][1] == "import xml.dom")
            if fi == 0:
                assume(a[2 * j + 1] == 0)
                ni = 0
            else:
                ni = pick(a[2 * j + 1], len(NAMES))
                if small and j >= 1:
                    assume(ni != 1)  # quick tier: later slots use the names p and c only
            slots.append((fi, ni))
        rsel = pick(a[2 * nslots], len(NAMES) + 1)
        if small:
            assume(rsel in (0, len(NAMES)))  # quick tier: extra read of `p` or none
        reader = None if rsel == len(NAMES) else rsel
        if special:
            assume(reader is None)
        with NoTracing():
            src = gen(slots, reader)
            try:
                compile(src, "<c10>", "exec", dont_inherit=True)
                valid = True
            except SyntaxError:
                valid = False
        assume(valid)
        with NoTracing():
            want = oracle(src, probed)
            occurs = probed in src.replace("pass", "")
            ns = load_source(src, modname="pv_c10")
            f = ns["f"]
            code0 = f.__code__
            info_prov = None
            try:
                pr = probing(f"f > {probed}", env={"f": f})
                pr.__enter__()
                try:
                    info_prov = (f.__ptera_info__.get(probed) or {}).get("provenance")
                finally:
                    pr.__exit__(None, None, None)
                res = "activated"
            except SelectorError:
                res = "SelectorError"
            except Exception as e:  # noqa
                res = type(e).__name__
            # a refused activation is refused before anything happens: the function keeps its own code
            leaked = res != "activated" and f.__code__ is not code0
            # a refused activation must leave the function probe-able: follow up with a name Python knows
            followup = None
            if res == "SelectorError":
                valid = next((nm for nm in NAMES + ["d"] if oracle(src, nm) in ("argument", "body", "closure", "external")
                              and not (oracle(src, nm) == "body" and any(
                                  FORMS[fi][1].startswith(("def {N}", "class {N}")) and NAMES[ni] == nm for fi, ni in slots))), None)
                if valid is not None:
                    try:
                        pr2 = probing(f"f > {valid}", env={"f": f})
                        pr2.__enter__()
                        pr2.__exit__(None, None, None)
                        followup = (valid, "activated")
                    except Exception as e:  # noqa
                        followup = (valid, type(e).__name__)
            forms = sorted({FORMS[fi][1].replace("{N}", "N").split("\n")[0] for fi, ni in slots if NAMES[ni] == probed and fi})
            # the form that makes the name what Python says it is (for the fingerprint; no solver values)
            binder = next((x for x in forms if x.startswith(("def N", "class N"))), None) or \
                ("try-block" if any(x.startswith("try") for x in forms) else None) or \
                next((x for x in forms if "for N in ()]" in x), None) or "other"
        if twin:
            require(not (want == "body" and res == "activated"), "vacuity twin", {"fp": "twin"})
            return
        require(not leaked, f"`f > {probed}` was refused ({res}) but f was left running instrumented code",
                {"fp": "C10:refusal-leaves-tooling"})
        require(followup is None or followup[1] == "activated",
                f"after `f > {probed}` was refused, the valid `f > {followup and followup[0]}` is refused too on the same function: "
                f"{followup and followup[1]}", {"fp": f"C10:refusal-sticky:{followup and followup[1]}"})
        if want == "unasserted":
            return
        if probed.startswith("#"):
            if probed == "#value":
                require(res == "activated", f"the documented meta-variable #value was refused: {res}", {"fp": "C10:hashvar:valid-refused"})
            else:
                require(res == "SelectorError", f"the undocumented meta-variable {probed} gave {res} instead of a selector error",
                        {"fp": f"C10:hashvar:invalid-{res}"})
            return
        if want is not None:
            require(res == "activated", f"`{probed}` is a {want} name of f for Python but probing('f > {probed}') gave {res}",
                    {"fp": f"C10:refused:{want}:{binder}:{res}", "source": src, "forms": forms})
            if want == "global-assigned":
                # `global N` + assignment in f: a global for Python, bound by f's body for ptera -- the property's four
                # provenance words do not settle it: both readings accepted
                ok_prov = info_prov in ("external", "body")
            else:
                ok_prov = info_prov == want
            require(ok_prov, f"provenance of `{probed}` recorded as {info_prov}, Python scopes it as {want}",
                    {"fp": f"C10:provenance:{want}-as-{info_prov}:{binder}", "source": src, "forms": forms})
        elif not occurs:
            require(res == "SelectorError", f"`{probed}` occurs nowhere in f but probing gave {res}",
                    {"fp": f"C10:fresh-name:{res}", "source": src})

    names = []
    for j in range(nslots):
        names += [f"f{j}", f"n{j}"]
    return int_harness(run, names + ["reader", "probed"])


def cases(tier, seed):
    th = tier == "thorough"
    cs = [{"id": "nonfunction", "params": {"kind": "nonfunction"}, "budget_s": 60},
          {"id": "nonfunction:twin", "params": {"kind": "nonfunction"}, "vacuity_twin": True, "stop_on_refute": True, "budget_s": 60}]
    for f0 in range(len(FORMS)):
        cs.append({"id": f"slots:first={f0}", "params": {"kind": "slots", "slots": 2, "f0": f0, "small": not th},
                   "budget_s": 8000 if th else 280})
    cs.append({"id": "slots:twin", "params": {"kind": "slots", "slots": 2, "f0": 6}, "vacuity_twin": True, "stop_on_refute": True,
               "budget_s": 60})
    return cs
