"""C16 -- declared-but-unset variables are supplied from outside or fail loudly.

Templates with bare-annotation variables and conditionally used undefined globals are run
on symbolic paths/values under every combination of {which of them an overlay/probe
supplies} x {which variables are instrumented}; the real ptera code is executed
symbolically and compared with the rule the property states (substitution twin when
supplied; NameError identifying variable and function otherwise; Python's NameError at the
point of use for undefined globals; no error when never used) and every result, event and
effect is scanned for ptera's ABSENT marker.
"""

from __future__ import annotations

PROPERTY = "C16"

META = {
    "level": "model_checking",
    "technique": "bounded symbolic execution (CrossHair/z3) of the real code vs the stated NameError/substitution rule + ABSENT scan",
    "functions": [
        "ptera.transform.PteraTransformer.visit_AnnAssign/make_interaction (value is None)/visit_FunctionDef (externals loop)/_interact",
        "ptera.interpret.Interactor.interact (ABSENT check)", "ptera.transform.PteraNameError/name_error", "ptera.utils.ABSENT/DictPile",
        "ptera.overlay.Overlay.tweaking", "ptera.probe.OverridableProbe.override",
    ],
    "bounds": {"quick": {"ints": "unbounded", "paths": "3 branch selectors per template", "templates": 5,
                         "configurations": "supplied subset x instrumentation subset (all / declared only / other variable only)"},
               "thorough": {"ints": "unbounded", "paths": "3 branch selectors per template", "templates": 5,
                            "configurations": "as quick plus rewriting and raw/generic observers"}},
    "out_of_scope": ["functions with nothing instrumented (plain Python, ptera not involved)", "programs outside the 5 templates",
                     "message text of the errors"],
    "assumptions": ["transform executed natively"],
}

SRC = {
    "decl": '''
def f(x, sel):
    y: int
    if sel == 1:
        z = y + x
    else:
        z = x
    return z
''',
    "decl_late": '''
def f(x, sel):
    z = x
    if sel >= 1:
        w: "@Param"
        z = eff("use", w) if sel == 1 else z + 1
    return z
''',
    "decl_caught": '''
def f(x, sel):
    try:
        y: int
        z = y
    except NameError:
        z = x + sel
    return z
''',
    "undef": '''
def f(x, sel):
    if sel == 1:
        z = UNDEF + x
    else:
        z = x
    return z
''',
    "undef_pass": '''
def f(x, sel):
    z = x
    if sel == 1:
        return UNDEF
    if sel == 2:
        z = eff("arg", UNDEF)
    return z
''',
    "both": '''
def f(x, sel):
    y: int
    z = x + y
    if sel == 1:
        z = z + UNDEF
    return z
''',
    # a tagged ordinary variable next to an undefined global: probed through a category-restricted generic capture, the
    # global is not among the instrumented variables and keeps Python's own semantics
    "tag_undef": '''
def f(x, sel):
    k: "@Param" = x
    z = k
    if sel == 1:
        return UNDEF
    if sel == 2:
        z = z + UNDEF
    return z
''',
}

# template -> (declared-only vars, undefined globals, an ordinary variable)
SHAPE = {"decl": (["y"], [], "z"), "decl_caught": (["y"], [], "z"), "decl_late": (["w"], [], "z"), "undef": ([], ["UNDEF"], "z"),
         "undef_pass": ([], ["UNDEF"], "z"), "both": (["y"], ["UNDEF"], "z")}
SHAPE_EXTRA = {"tag_undef": ([], ["UNDEF"], "z")}  # only with inst=generic-tag (see cases)


def _contains_absent(v, ABSENT, depth=0):
    if v is ABSENT:
        return True
    if depth > 4:
        return False
    if isinstance(v, (list, tuple)):
        return any(_contains_absent(x, ABSENT, depth + 1) for x in v)
    if isinstance(v, dict):
        return any(_contains_absent(x, ABSENT, depth + 1) for x in v.values())
    return False


def reference(tname, x, sel, supplied):
    """What the property says must happen: ('ok', value, effs) | ('nameerror', var)."""
    effs = []
    S = supplied
    if tname == "decl":
        if "y" not in S:
            return ("nameerror", "y")
        return ("ok", S["y"] + x if sel == 1 else x, effs)
    if tname == "decl_caught":
        return ("ok", S["y"] if "y" in S else x + sel, effs)
    if tname == "decl_late":
        z = x
        if sel >= 1:
            if "w" not in S:
                return ("nameerror", "w")
            if sel == 1:
                effs.append(("use", S["w"]))
                z = S["w"]
            else:
                z = z + 1
        return ("ok", z, effs)
    if tname == "undef":
        if sel == 1:
            if "UNDEF" not in S:
                return ("nameerror", "UNDEF")
            return ("ok", S["UNDEF"] + x, effs)
        return ("ok", x, effs)
    if tname == "undef_pass":
        if sel == 1:
            return ("ok", S["UNDEF"], effs) if "UNDEF" in S else ("nameerror", "UNDEF")
        if sel == 2:
            if "UNDEF" not in S:
                return ("nameerror", "UNDEF")
            effs.append(("arg", S["UNDEF"]))
            return ("ok", S["UNDEF"], effs)
        return ("ok", x, effs)
    if tname == "both":
        if "y" not in S:
            return ("nameerror", "y")
        z = x + S["y"]
        if sel == 1:
            if "UNDEF" not in S:
                return ("nameerror", "UNDEF")
            z = z + S["UNDEF"]
        return ("ok", z, effs)
    if tname == "tag_undef":
        if sel == 1:
            return ("ok", S["UNDEF"], effs) if "UNDEF" in S else ("nameerror", "UNDEF")
        if sel == 2:
            return ("ok", x + S["UNDEF"], effs) if "UNDEF" in S else ("nameerror", "UNDEF")
        return ("ok", x, effs)
    raise ValueError(tname)


def build(case):
    from ptera import Overlay, probing, tooled
    from ptera.selector import select
    from ptera.transform import PteraNameError
    from ptera.utils import ABSENT
    from pv.corpus.base import load
    from pv.engine.xsym import pick, require

    p = case["params"]
    tname, inst, supply, how = p["template"], p["inst"], p["supply"], p["how"]
    twin = bool(case.get("vacuity_twin"))
    declared, undefined, other = {**SHAPE, **SHAPE_EXTRA}[tname]
    tmpl = {"name": "c16_" + tname, "src": SRC[tname] + "\ndef drive(a, b, c, d):\n    return f(a, b)\n", "funcs": ["f"]}
    fpb = f"C16:{tname}:{'uninstrumented' if inst in ('other', 'generic-tag') else 'instrumented'}"

    def h(x: int, selv: int, V: int, W: int):
        sel = pick(selv, 3)
        vals = {"y": V, "w": V, "UNDEF": W}
        supplied = {k: vals[k] for k in supply}
        ns, H = load(tmpl)
        events = []
        stack = []

        def enter(cm):
            cm.__enter__()
            stack.append(cm)
            return cm

        info_seen = {}
        out = None
        try:
            # ---- instrumentation subset
            if inst == "all":
                ns["f"] = tooled(ns["f"])
            elif inst == "other":  # only an ordinary variable is probed: declared/undefined ones are not instrumented
                pr = enter(probing(f"f > {other}", env=ns))
                pr.subscribe(lambda d: events.append(dict(d)))
            elif inst == "generic":
                pr = enter(probing("f > $v", env=ns, raw=True))
                pr.subscribe(lambda d: events.append({d["v"].names[0]: d["v"].values[0]}))
            elif inst == "generic-tag":  # category-restricted generic capture: only the tagged variable is instrumented
                pr = enter(probing("f > $v:@Param", env=ns, raw=True))
                pr.subscribe(lambda d: events.append({d["v"].names[0]: d["v"].values[0]}))
            elif inst == "ctx":  # the special variables are context captures of a probe focused on an ordinary variable
                names = [k for k in declared + undefined]
                pr = enter(probing(f"f({', '.join(names)}) > {other}", env=ns))
                pr.subscribe(lambda d: events.append(dict(d)))
            elif inst == "total":  # focus-free probe: one record per call, emitted at exit (also on exceptions)
                names = [k for k in declared + undefined]
                pr = enter(probing(f"f({', '.join(names + ['x'])})", env=ns, raw=True))
                pr.subscribe(lambda d: events.append({k: list(c.values) for k, c in d.items()}))
            # inst == "named": only through the supplying / observing probes below
            # ---- suppliers
            for k in supply:
                if how == "overlay-tag":
                    # a plain Overlay (no auto-instrumentation) whose selector reaches the variable through its tag
                    enter(Overlay.tweaking({select("f > $v:@Param", env=ns): supplied[k]}))
                elif how == "tweak":
                    if inst != "all":
                        ns["f"] = tooled(ns["f"]) if not hasattr(ns["f"], "__ptera_info__") else ns["f"]
                    enter(Overlay.tweaking({select(f"f > {k}", env=ns): supplied[k]}))
                else:
                    op = enter(probing(f"f > {k}", env=ns, overridable=True))
                    op.override(lambda d, _v=supplied[k]: _v)
            if inst == "named":
                for k in declared + undefined:
                    if k not in supply:
                        pr = enter(probing(f"f > {k}", env=ns))
                        pr.subscribe(lambda d: events.append(dict(d)))
            try:
                out = ("ok", ns["f"](x, sel))
            except NameError as e:
                out = ("nameerror", e)
                if isinstance(e, PteraNameError):
                    try:
                        info_seen = dict(e.info())
                    except Exception as e2:  # noqa
                        info_seen = {"error": type(e2).__name__}
            except Exception as e:
                out = ("exc", e)
        finally:
            for cm in reversed(stack):
                cm.__exit__(None, None, None)

        exp = reference(tname, x, sel, supplied)
        if twin:
            require(not (exp[0] == "nameerror" and out[0] == "nameerror"), "vacuity twin", {"fp": "twin"})
            return
        # ---- the marker never reaches user code
        require(not (out[0] == "ok" and _contains_absent(out[1], ABSENT)), "ABSENT returned to the caller",
                {"fp": f"{fpb}:absent-returned"})
        require(not any(_contains_absent(v, ABSENT) for _, v in H.log), "ABSENT passed to user code as a value",
                {"fp": f"{fpb}:absent-in-user-code"})
        require(not any(_contains_absent(ev, ABSENT) for ev in events), "ABSENT delivered in an event",
                {"fp": f"{fpb}:absent-in-event"})
        if exp[0] == "ok":
            require(out[0] == "ok", f"call should proceed (value supplied or never needed) but ended with {out[0]}: "
                    f"{type(out[1]).__name__ if out[0] != 'ok' else ''}",
                    {"fp": f"{fpb}:spurious-{out[0]}:{type(out[1]).__name__}"})
            require(out[1] == exp[1], "call did not proceed with the supplied value", {"fp": f"{fpb}:value"})
            require(list(H.log) == exp[2], "effects differ", {"fp": f"{fpb}:effects"})
        else:
            var = exp[1]
            require(out[0] == "nameerror", f"unset variable `{var}` did not produce a NameError but {out[0]}:"
                    f"{type(out[1]).__name__}", {"fp": f"{fpb}:no-nameerror:{out[0]}:{type(out[1]).__name__}"})
            err = out[1]
            if var in declared:
                require(isinstance(err, PteraNameError), "declared-only variable: the error is not ptera's name error",
                        {"fp": f"{fpb}:not-ptera-nameerror"})
                require(err.varname == var, "the error names a different variable", {"fp": f"{fpb}:wrong-varname"})
                require(getattr(err.function, "__name__", None) == "f", "the error does not identify the function",
                        {"fp": f"{fpb}:wrong-function"})
                require(info_seen.get("provenance") == "body" and info_seen.get("annotation") is not ABSENT
                        and "annotation" in info_seen,
                        "the error does not expose the variable's annotation and provenance",
                        {"fp": f"{fpb}:info", "info": {k: repr(v) for k, v in info_seen.items()}})
            else:
                nm = getattr(err, "varname", None) or getattr(err, "name", None) or str(err)
                require(var in str(nm) or var in str(err), "the NameError names a different variable",
                        {"fp": f"{fpb}:wrong-varname"})

    return h


def cases(tier, seed):
    th = tier == "thorough"
    cs = []
    for tname, (declared, undefined, other) in SHAPE.items():
        special = declared + undefined
        subsets = [[]] + [[k] for k in special] + ([special] if len(special) > 1 else [])
        for inst in ("all", "named", "other", "generic", "ctx", "total"):
            for supply in subsets:
                hows = ["tweak", "override"] if supply else ["-"]
                for how in hows:
                    if inst in ("other", "generic", "ctx", "total") and how == "tweak":
                        continue  # tweaking tools everything; covered by inst=all
                    cs.append({"id": f"{tname}:inst={inst}:supply={'+'.join(supply) or 'none'}:{how}",
                               "params": {"template": tname, "inst": inst, "supply": supply, "how": how},
                               "budget_s": 120 if th else 60})
    for inst in ("other", "all"):  # ("named" would leave the function entirely uninstrumented: plain Python, not in scope)
        cs.append({"id": f"decl_late:inst={inst}:supply=w:overlay-tag",
                   "params": {"template": "decl_late", "inst": inst, "supply": ["w"], "how": "overlay-tag"}, "budget_s": 60})
    cs.append({"id": "tag_undef:inst=generic-tag:supply=none:-",
               "params": {"template": "tag_undef", "inst": "generic-tag", "supply": [], "how": "-"}, "budget_s": 60})
    cs.append({"id": "decl_late:inst=generic-tag:supply=none:-",
               "params": {"template": "decl_late", "inst": "generic-tag", "supply": [], "how": "-"}, "budget_s": 60})
    cs.append({"id": "decl:inst=all:supply=none:twin", "params": {"template": "decl", "inst": "all", "supply": [], "how": "-"},
               "vacuity_twin": True, "stop_on_refute": True, "budget_s": 30})
    return cs
