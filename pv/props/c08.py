"""C08 -- overlays and probes in concurrent threads do not interfere.

Engine S rewrites the current source of ptera's shared-state functions (_tooler, _untooler,
SyncedStackedTransforms.__init__/push/pop/_apply, StackedTransforms.*, TransformSet.*,
BaseOverlay.__enter__/__exit__) into coroutines with a scheduling point before every
statement and between the load and the store of `x.attr += 1` / `x[k] += 1`.  Two or three
virtual threads, each in its own contextvars.Context, run
    tool -> enter overlay -> call f(x_i) -> leave overlay -> untool   (one or two rounds)
on the same function; the *schedule* -- where the (bounded number of) preemptions happen and
to which thread -- is a symbolic vector decided by the solver.  Every thread must see
exactly its own events and return value, and afterwards the function must run its original
code with all counters at zero.  A failing schedule is replayed on real threading.Thread
objects, gated statement by statement with sys.settrace (and at the STORE opcode for
load/store points), before it is reported.
"""

from __future__ import annotations

PROPERTY = "C08"

META = {
    "level": "model_checking",
    "technique": "source-level sequentialisation of the real shared-state code into virtual threads + solver-chosen bounded-preemption "
                 "schedules (CrossHair/z3) + real-thread replay under sys.settrace gating",
    "functions": [
        "ptera.overlay._tooler/_untooler", "ptera.transform.SyncedStackedTransforms.__init__/push/pop/_apply",
        "ptera.transform.StackedTransforms.__init__/push/pop/get", "ptera.transform.TransformSet.__init__/_set_base/_register/transform_for",
        "ptera.overlay.BaseOverlay.__enter__/__exit__", "ptera.overlay.HandlerCollection.current (ContextVar, per virtual thread context)",
        "ptera.overlay.proceed / ptera.interpret.Interactor (executed atomically inside the call step)",
    ],
    "bounds": {
        "quick": {"threads": 2, "rounds_per_thread": "1+1 with <= 2 preemptions; 1+2 with <= 1 preemption", "preemptions": "<= 2",
                  "granularity": "every statement of the rewritten functions + load/store of augmented attribute/subscript assignment"},
        "thorough": {"threads": "2 and 3", "rounds_per_thread": "1+2 and 2+2 (2 threads), 1+1+1 (3 threads)",
                     "preemptions": "<= 2 (3 threads: every single preemption; two preemptions at most 48 steps apart)"},
    },
    "out_of_scope": [
        "preemption inside a statement other than the load/store split (bytecode level)", "the interior of transform() (it execs into "
        "the function's globals); a call of the instrumented function has one scheduling point, between binding the code object "
        "(call entry) and executing its body, which is otherwise atomic",
        "the memo tables _selector_fit_cache / InternedMC._cache / the gensym counter", "more than 3 threads / 2 rounds",
    ],
    "assumptions": ["statement-level atomicity as CPython's GIL gives between bytecodes is modelled at statement (+ load/store) granularity",
                    "each virtual thread is stepped inside its own contextvars.Context", "schedules are concrete once the solver "
                    "chose the preemption vector; the interleaved code runs natively"],
}

SRC = '''
def f(x):
    a = x + 1
    b = a * 2
    return b
'''
TMPL = {"name": "c08", "src": SRC, "funcs": ["f"], "gen": False}
SELS = ["f > a", "f > b", "f(a) > b"]

_MACHINE = None


def machine():
    global _MACHINE
    if _MACHINE is None:
        import sys
        import types

        import ptera.overlay as O
        from pv.engine.seqz import Machine

        T = sys.modules["ptera.transform"]
        m = Machine()
        m.add(O._tooler, None)
        m.add(O._untooler, None)
        # every method currently defined by the three state classes and by BaseOverlay's enter/exit (whatever a refactoring adds)
        for cls in (T.SyncedStackedTransforms, T.StackedTransforms, T.TransformSet):
            for name, fn in vars(cls).items():
                if isinstance(fn, types.FunctionType) and name not in ("_conform",):
                    m.add(fn, cls)
        m.add(O.BaseOverlay.__enter__, O.BaseOverlay)
        m.add(O.BaseOverlay.__exit__, O.BaseOverlay)
        _MACHINE = m
    return _MACHINE


def expected(sel, x):
    a, b = x + 1, (x + 1) * 2
    return {"f > a": [{"a": a}], "f > b": [{"b": b}], "f(a) > b": [{"a": a, "b": b}]}[sel]


_CFG = {"same": None}  # index into SELS when every thread uses that one selector (set by build() from the case parameters)


def setup(nthreads, rounds):
    """Fresh function, probes (not activated) and per-thread plan."""
    from ptera import probing
    from ptera.selector import select
    from pv.corpus.base import load

    ns, _ = load(TMPL)
    f = ns["f"]
    threads = []
    for i in range(nthreads):
        rs = []
        for r in range(rounds[i]):
            # a thread re-activates the same selector in its second round (a third round would move on to the next one)
            sel = SELS[(i + r // 2) % len(SELS)] if _CFG["same"] is None else SELS[_CFG["same"]]
            s = select(sel, env=ns)
            pr = probing(s)
            got = []
            pr.subscribe(lambda d, got=got: got.append(dict(d)))
            rs.append({"sel": sel, "caps": s.captures, "ol": pr._ol, "got": got, "x": 10 * (i + 1) + r, "rv": []})
        threads.append(rs)
    return ns, f, threads


def postcondition(f, orig, threads, errors):
    """None if fine, else (fingerprint class, message)."""
    for i, e in enumerate(errors):
        if e is not None:
            return (f"thread-error:{type(e).__name__}", f"thread {i} failed with {type(e).__name__}: {e}")
    for i, rs in enumerate(threads):
        for r in rs:
            exp = expected(r["sel"], r["x"])
            if r["rv"] != [(r["x"] + 1) * 2]:
                return ("return-value", f"thread {i}: call returned {r['rv']}")
            if r["got"] != exp:
                cls = "events-lost" if len(r["got"]) < len(exp) else ("events-duplicated-or-foreign" if len(r["got"]) > len(exp) else "events-wrong")
                return (cls, f"thread {i} ({r['sel']}): observed {r['got']}, its own call produces {exp}")
    if f.__code__ is not orig:
        return ("code-not-restored", "all threads finished but the function does not run its original code")
    st = getattr(f, "__ptera_stack__", None)
    if st is not None and (st.instrument_count != 0 or any(c != 0 for c in st.captures.values())):
        return ("count-left", f"instrumentation counters left over: {st.instrument_count}, {dict(st.captures)}")
    return None


def run_virtual(plan, nthreads, rounds):
    """plan: list of (global step position, target thread).  Returns (verdict, trace)."""
    import contextvars
    import types

    import ptera.overlay as O
    from pv.engine.seqz import VThread, run_schedule

    m = machine()
    m.locks.clear()
    ns, f, threads = setup(nthreads, rounds)
    orig = f.__code__

    def prog(i):
        for r in threads[i]:
            yield (0, "op")
            yield from m.call(O._tooler, f, r["caps"])
            yield (0, "op")
            yield from m.call(r["ol"].__enter__)
            yield (0, "op")
            # call entry: CPython binds the code object when the call starts; the first statement of the (possibly
            # instrumented) body -- `with proceed(<global token>)` -- runs later: another thread may swap variants in between
            entered = types.FunctionType(f.__code__, f.__globals__, f.__name__, f.__defaults__, f.__closure__)
            entered.__kwdefaults__ = f.__kwdefaults__
            yield (0, "callentry")
            r["rv"].append(entered(r["x"]))
            yield (0, "op")
            yield from m.call(r["ol"].__exit__, None, None, None)
            yield (0, "op")
            yield from m.call(O._untooler, f, r["caps"])

    vts = [VThread(i, prog(i), contextvars.copy_context()) for i in range(nthreads)]
    plan = list(plan)
    state = {"k": 0, "bad": False}

    def choose(enabled, prev, step):
        if state["k"] < len(plan) and plan[state["k"]][0] == step:
            to = plan[state["k"]][1]
            if to is None:
                others = [e for e in enabled if e != prev]
                to = others[0] if others else prev
            state["k"] += 1
            if to in enabled and to != prev and (prev in enabled):
                return to
            state["bad"] = True  # not a preemption (target disabled / same thread / previous thread could not continue anyway)
        if prev is not None and prev in enabled:
            return prev
        return enabled[0]

    trace = run_schedule(m, vts, choose)
    if state["bad"] or state["k"] < len(plan):
        return "not-a-schedule", trace
    return postcondition(f, orig, threads, [t.error for t in vts]), trace


def run_real(trace, nthreads, rounds, timeout=8.0):
    """Enforce the virtual trace on real threads (sys.settrace gating).  Returns the postcondition verdict,
    or 'replay-timeout'."""
    import dis
    import sys
    import threading

    import ptera.overlay as O

    m = machine()
    ns, f, threads = setup(nthreads, rounds)
    orig = f.__code__
    # gates: code object -> (set of first offsets of gated statement lines, set of mid lines)
    gates = {}
    for fn, pts in m.points.items():
        code = fn.__code__
        first = {}
        for off, line in dis.findlinestarts(code):
            if line is not None and line not in first:
                first[line] = off
        lines = {ln for ln, kind in pts if kind == "stmt"}
        mids = {ln for ln, kind in pts if kind == "mid"}
        gates[code] = ({first[ln] for ln in lines if ln in first}, mids)
    sched = [tid for tid, pt in trace if pt == "end" or (isinstance(pt, tuple) and pt[1] in ("stmt", "mid", "op", "callentry"))]
    cond = threading.Condition()
    state = {"cursor": 0, "timeout": False}
    tids = {}
    STORES = {dis.opmap["STORE_ATTR"], dis.opmap["STORE_SUBSCR"]}

    log = []

    def gate(what=None):
        me = tids.get(threading.get_ident())
        if me is None:
            return
        log.append((me, what))
        with cond:
            # (1) my arrival at this point is the next scheduled event
            while state["cursor"] < len(sched) and sched[state["cursor"]] != me and not state["timeout"]:
                if not cond.wait(timeout):
                    state["timeout"] = True
                    cond.notify_all()
                    return
            state["cursor"] += 1
            cond.notify_all()
            if what == "end":
                return
            # (2) I may execute the statement only when the next scheduled event is mine again
            #     (a virtual thread that was preempted here is paused *before* this statement)
            while state["cursor"] < len(sched) and sched[state["cursor"]] != me and not state["timeout"]:
                if not cond.wait(timeout):
                    state["timeout"] = True
                    cond.notify_all()
                    return

    # sys.monitoring (PEP 669) INSTRUCTION events on the targeted code objects only; the callback runs in the
    # thread that executes the instruction, so it can block there (sys.settrace opcode events are not delivered on 3.12.1)
    mon = sys.monitoring
    tool = None
    for cand in (3, 4, 2, 1):
        try:
            mon.use_tool_id(cand, "pv-c08-replay")
            tool = cand
            break
        except ValueError:
            continue
    if tool is None:
        return "replay-timeout"
    stores = {}
    line_of = {code: {ins.offset: (ins.positions.lineno if ins.positions else None) for ins in dis.get_instructions(code)}
               for code in gates}
    for code, (offs, mids) in gates.items():
        st = set()
        if mids:
            for ins in dis.get_instructions(code):
                if ins.opcode in STORES and ins.positions is not None and ins.positions.lineno in mids:
                    st.add(ins.offset)
        stores[code] = st

    def on_instruction(code, offset):
        g = gates.get(code)
        if g is None:
            return
        if offset in g[0]:
            gate((line_of[code].get(offset), "stmt"))
        elif offset in stores[code]:
            gate((line_of[code].get(offset), "mid"))

    mon.register_callback(tool, mon.events.INSTRUCTION, on_instruction)
    for code in gates:
        mon.set_local_events(tool, code, mon.events.INSTRUCTION)

    # call entry of the probed function: whichever variant's code object starts executing
    fname, ffile = f.__code__.co_name, f.__code__.co_filename

    def on_start(code, offset):
        if code.co_name == fname and code.co_filename == ffile:
            gate((0, "callentry"))

    mon.register_callback(tool, mon.events.PY_START, on_start)
    mon.set_events(tool, mon.events.PY_START)

    errors = [None] * nthreads

    def body(i):
        tids[threading.get_ident()] = i
        try:
            for r in threads[i]:
                gate()
                O._tooler(f, r["caps"])
                gate()
                r["ol"].__enter__()
                gate()
                r["rv"].append(f(r["x"]))
                gate()
                r["ol"].__exit__(None, None, None)
                gate()
                O._untooler(f, r["caps"])
        except Exception as e:  # noqa
            errors[i] = e
        finally:
            gate("end")
            tids.pop(threading.get_ident(), None)
            with cond:
                # a finished thread must not block the others: drop any remaining slots of it
                while state["cursor"] < len(sched) and sched[state["cursor"]] == i:
                    state["cursor"] += 1
                cond.notify_all()

    ths = [threading.Thread(target=body, args=(i,)) for i in range(nthreads)]
    for t in ths:
        t.start()
    for t in ths:
        t.join(timeout * 3)
    for code in gates:
        mon.set_local_events(tool, code, 0)
    mon.set_events(tool, 0)
    mon.register_callback(tool, mon.events.PY_START, None)
    mon.register_callback(tool, mon.events.INSTRUCTION, None)
    mon.free_tool_id(tool)
    run_real.last_log = log
    if state["timeout"] or any(t.is_alive() for t in ths):
        return "replay-timeout"
    return postcondition(f, orig, threads, errors)


def run_special(case):
    """Validate the sequentialised model against the implementation: sampled schedules are run both as virtual
    threads and, gated step by step, on real OS threads; the verdicts must agree."""
    import random
    import time

    p = case["params"]
    rnd = random.Random(p["seed"])
    t0 = time.perf_counter()
    agree, disagreements, samples, skipped = 0, [], [], []
    n = 0
    while n < p["n"]:
        nthreads, rounds = (2, [1, 1]) if n % 2 == 0 else (2, [1, 2])
        length = 160 if rounds == [1, 1] else 235
        a = rnd.randrange(0, length - 2)
        b = rnd.randrange(a + 1, length)
        plan = [(a, None), (b, None)]
        v, tr = run_virtual(plan, nthreads, rounds)
        if v == "not-a-schedule":
            continue
        n += 1
        r = run_real(tr, nthreads, rounds)
        if r == "replay-timeout":  # machine too loaded to enforce the schedule in time: not a disagreement
            skipped.append(plan)
            continue
        same = (v is None and r is None) or (v is not None and r is not None and not isinstance(r, str))
        if same:
            agree += 1
        else:
            disagreements.append({"plan": plan, "virtual": v and v[0], "real": r if isinstance(r, str) else (r and r[0])})
        if len(samples) < 3:
            samples.append({"preemptions_at": [a, b], "rounds": rounds, "steps": len(tr), "virtual": v and v[0],
                            "real": r if isinstance(r, str) else (r and r[0])})
    res = {"paths": n, "confirmed": agree, "refuted": 0, "unknown": len(disagreements), "ignored": 0, "exhausted": not disagreements,
           "timed_out": False, "z3_calls": 0, "z3_secs": 0.0, "obligations": n, "validated_concretely": agree, "counterexamples": [],
           "samples": samples, "queries": {"schedules_run_on_real_threads": n, "agreeing": agree, "disagreements": disagreements[:5],
                       "skipped_for_timeout": len(skipped)}}
    if disagreements:
        raise RuntimeError(f"sequentialised model and real threads disagree: {disagreements[:3]}")
    return res


def build(case):
    from crosshair.tracers import NoTracing, is_tracing
    from pv.engine.xsym import assume, int_harness, pick, require

    p = case["params"]
    twin = bool(case.get("vacuity_twin"))
    nthreads, rounds, P = p["threads"], p["rounds"], p["P"]
    lo, hi = p.get("lo", 0), p.get("hi", 400)
    MAXPOS = p.get("maxpos", 400)
    window = p.get("window")  # the second preemption at most `window` steps after the first
    _CFG["same"] = p.get("same")  # every thread activates the same selector (identical capture sets)

    def run(*a):
        pos = []
        prev = -1
        for k in range(P):
            if k == 0:
                # shard: first preemption in [lo, hi); the last shard also holds "no preemption at all"
                j = pick(a[0] - lo, (hi - lo) + (1 if hi >= MAXPOS else 0))
                v = lo + j if j < hi - lo else MAXPOS
            elif prev == MAXPOS:
                assume(a[2 * k] == 0)
                v = MAXPOS
            else:
                span = MAXPOS - prev if not window else min(MAXPOS - prev, window + 1)
                j = pick(a[2 * k] - prev - 1, span)  # prev+1 .. MAXPOS, or (windowed) prev+1 .. prev+window and "none"
                v = prev + 1 + j
                if window and j == span - 1:
                    v = MAXPOS
            prev = v
            if v == MAXPOS or nthreads == 2:
                assume(a[2 * k + 1] == 0)
                to = None  # two threads: a preemption always switches to the other one
            else:
                to = pick(a[2 * k + 1], nthreads)
            pos.append((v, to))
        plan = [(v, to) for v, to in pos if v != MAXPOS]
        tracing = is_tracing()
        with NoTracing():
            verdict, trace = run_virtual(plan, nthreads, rounds)
        assume(verdict != "not-a-schedule")
        if twin:
            require(not (verdict is None and len(plan) == P), "vacuity twin", {"fp": "twin"})
            return
        if verdict is None:
            return
        if not tracing:
            # concrete replay: the same schedule on real OS threads
            real = run_real(trace, nthreads, rounds)
            if real is None or real == "replay-timeout":
                return  # did not reproduce on real threads: nothing is claimed (the runner reports a harness error)
            verdict = real
        sw = [(tid, pt) for tid, pt in trace]
        require(False, f"schedule with preemptions at steps {[v for v, _ in plan]}: {verdict[1]}",
                {"fp": f"C08:{verdict[0]}", "plan": plan, "threads": nthreads, "rounds": rounds})

    names = []
    for k in range(P):
        names += [f"p{k}", f"t{k}"]
    return int_harness(run, names)


def cases(tier, seed):
    th = tier == "thorough"
    cs = []

    def shards(name, params, width, maxpos, budget):
        for lo in range(0, maxpos, width):
            cs.append({"id": f"{name}:p0={lo}-{lo + width - 1}", "params": dict(params, lo=lo, hi=lo + width, maxpos=maxpos),
                       "budget_s": budget, "per_path_s": 60})

    shards("2thr-1round-P2", {"threads": 2, "rounds": [1, 1], "P": 2}, 11, 176, 3000 if th else 280)
    shards("2thr-rounds12-P1", {"threads": 2, "rounds": [1, 2], "P": 1}, 32, 256, 3000 if th else 280)
    # both threads activate the very same selector (identical capture sets: shared counters, same variant)
    if th:
        shards("2thr-same0-P2", {"threads": 2, "rounds": [1, 1], "P": 2, "same": 0}, 11, 176, 3000)
        shards("2thr-same2-P2", {"threads": 2, "rounds": [1, 1], "P": 2, "same": 2}, 11, 176, 3000)
    else:
        shards("2thr-same0-P2w", {"threads": 2, "rounds": [1, 1], "P": 2, "same": 0, "window": 40}, 22, 176, 280)
    if th:
        shards("2thr-rounds12-P2", {"threads": 2, "rounds": [1, 2], "P": 2}, 8, 256, 20000)
        shards("2thr-rounds22-P2", {"threads": 2, "rounds": [2, 2], "P": 2}, 8, 336, 20000)
        shards("3thr-1round-P1", {"threads": 3, "rounds": [1, 1, 1], "P": 1}, 32, 256, 20000)
        shards("3thr-1round-P2w", {"threads": 3, "rounds": [1, 1, 1], "P": 2, "window": 48}, 8, 256, 20000)
    cs.append({"id": "validate-model-on-real-threads", "kind": "special", "params": {"n": 40 if th else 12, "seed": seed}})
    cs.append({"id": "2thr:twin", "params": {"threads": 2, "rounds": [1, 1], "P": 2, "lo": 0, "hi": 11, "maxpos": 176},
               "vacuity_twin": True, "stop_on_refute": True, "budget_s": 100})
    return cs
