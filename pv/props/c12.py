"""C12 -- value conditions in selectors filter events exactly by the stated predicate.

Engine Z: ptera/tools.py (Range.__call__, every, between, lt, gt, lte, gte) is
translated from its *current* AST to z3 terms over mathematical integers and
compared with the arithmetic specification of the property (unsat of the
negation, z3 + cvc5).
Engine X: (a) the same specification asserted over the *real* functions run
symbolically; (b) end-to-end: loop programs with symbolic values under real
probes with `=`/`~` conditions at one or two stack levels, compared with the
unconstrained stream filtered by a reference predicate; (c) overrides applied
under exactly that condition (hand-written substitution twin); (d) throttle.
"""

from __future__ import annotations

import time

PROPERTY = "C12"

META = {
    "level": "model_checking",
    "technique": "SMT (z3+cvc5) over a source-to-formula translation of ptera/tools.py; "
                 "bounded symbolic execution (CrossHair/z3) of the real filter pipeline",
    "functions": [
        "ptera.tools.Range.__init__/__call__", "ptera.tools.every", "ptera.tools.between",
        "ptera.tools.lt/gt/lte/gte", "ptera.tools.throttle.__call__",
        "ptera.selector.Selector.check_captures", "ptera.selector.MatchFunction",
        "ptera.selector.value_evaluate/VCall.eval/_resolve",
        "ptera.interpret.BaseAccumulator.__check/intercept/trigger", "ptera.interpret.Interactor.interact",
        "ptera.overlay.HandlerCollection.proceed", "ptera.probe.Probe._emit/OverridableProbe._emit",
    ],
    "bounds": {
        "quick": {"ints": "unbounded (z3 Int)", "modulus": "concrete n in [-12,12]\\{0} (Z) / [-4,4]\\{0} (X)",
                  "loop_trip_count": "n <= 3", "throttle_calls": 3},
        "thorough": {"ints": "unbounded (z3 Int)", "modulus": "concrete n in [-64,64]\\{0} (Z) / [-8,8]\\{0} (X); "
                     "plus one query with symbolic modulus (reported, inconclusive allowed)",
                     "loop_trip_count": "n <= 4", "throttle_calls": 4},
    },
    "out_of_scope": [
        "modulus 0 (ZeroDivisionError, outside the stated meaning)", "non-integer values",
        "loop programs other than the three templates in this module",
        "throttle: the property does not define its meaning; checked against a reference state machine "
        "validated on the repository's own test_throttle inputs",
    ],
    "assumptions": [
        "ptera.transform.transform is executed natively (NoTracing) -- its inputs are concrete",
        "Python int == SMT Int; Python % encoded with floor semantics (pymod)",
        "translator validated on the repository's test_tools inputs against the real functions",
    ],
}


# ==========================================================================
# Engine Z cases
# ==========================================================================


def _spec_range(v, start, end, modulo):
    """The property's statement, written independently of the code."""
    import z3

    conj = []
    if start is not None:
        conj.append(start <= v)
    if end is not None:
        conj.append(v < end)
    if modulo is not None:
        base = start if start is not None else 0
        if isinstance(modulo, int):
            conj.append((v - base) % abs(modulo) == 0)  # SMT mod, positive constant divisor
        else:
            k = z3.Int("k_div")
            conj.append(z3.Exists([k], v - base == k * modulo))
    return z3.And(*conj) if conj else z3.BoolVal(True)


def _z_validate_translator():
    """Push the repository's own test_tools inputs through the encoding and the real functions."""
    import ptera.tools as T
    from pv.engine.zsmt import PyToZ3

    tr = PyToZ3(T)
    G = tr.globals
    n = 0
    combos = [
        ("every", (), {}), ("every", (2,), {}), ("every", (3,), {}), ("every", (3,), {"start": 5}),
        ("every", (3,), {"end": 5}), ("between", (2, 5), {}), ("between", (-2, 2), {}),
        ("lt", (0,), {}), ("lt", (5,), {}), ("lte", (0,), {}), ("lte", (5,), {}), ("gt", (9,), {}),
        ("gt", (5,), {}), ("gte", (0,), {}), ("gte", (5,), {}), ("every", (-3,), {"start": 1}),
    ]
    for name, args, kw in combos:
        real = getattr(T, name)(*args, **kw)
        enc = tr.call(G[name], *args, **kw)
        for v in list(range(-7, 12)):
            a = bool(real(v))
            b = tr.call(enc, v)
            if a != bool(b):
                raise AssertionError(f"translator disagrees with real code: {name}{args}{kw}({v}): real={a} enc={b}")
            n += 1
    return n


def run_special(case):
    import z3
    import ptera.tools as T
    from pv.engine.zsmt import PyToZ3, Unsupported, prove

    p = case["params"]
    t0 = time.perf_counter()
    tr = PyToZ3(T)
    G = tr.globals
    v, s, e, a, b = z3.Ints("v s e a b")
    queries = []
    cex = []
    validated = 0

    def q(name, claim, model_to_args):
        r = prove(claim, timeout_ms=p.get("timeout_ms", 20000))
        r["name"] = name
        queries.append(r)
        if r["status"] == "refuted":
            cex.append({"args": model_to_args(r["model"]), "kind": "property",
                        "message": f"{name}: encoding of the real code differs from the specification",
                        "detail": {"fp": f"C12:z:{name.split('[')[0]}"}})

    def gi(m, k, d=0):
        return int(m.get(k, d)) if m else d

    kind = p["kind"]
    if kind == "validate":
        validated = _z_validate_translator()
        queries.append({"name": "translator-validation", "status": "proved", "z3": "n/a", "z3_s": 0})
    elif kind == "range":
        M = p["M"]
        for sn in (False, True):
            for en in (False, True):
                st = None if sn else s
                ed = None if en else e
                mods = [None] + [m for m in range(-M, M + 1) if m != 0]
                for m in mods:
                    obj = tr.call(G["Range"], start=st, end=ed, modulo=m)
                    got = tr.call(obj, v)
                    spec = _spec_range(v, st, ed, m)
                    q(f"Range[start={'None' if sn else 's'},end={'None' if en else 'e'},modulo={m}]",
                      z3.BoolVal(got) == spec if isinstance(got, bool) else got == spec,
                      lambda mod, sn=sn, en=en, m=m: {"fn": "Range", "start": None if sn else gi(mod, "s"),
                                                       "end": None if en else gi(mod, "e"), "modulo": m,
                                                       "v": gi(mod, "v")})
    elif kind == "every":
        M = p["M"]
        for m in [None] + [m for m in range(-M, M + 1) if m != 0]:
            # every(n, start, end) with all arguments; and the default-argument entry points
            forms = [
                ("every(n,s,e)", (m, s, e), {}, (s, e)),
                ("every(n)", (m,), {}, (0, None)),
                ("every(n,start=s)", (m,), {"start": s}, (s, None)),
                ("every(n,end=e)", (m,), {"end": e}, (0, e)),
                ("every(n,s,None)", (m, s, None), {}, (s, None)),
                ("every(n,None,e)", (m, None, e), {}, (None, e)),
            ]
            for nm, args, kw, (ss, ee) in forms:
                obj = tr.call(G["every"], *args, **kw)
                got = tr.call(obj, v)
                spec = _spec_range(v, ss, ee, m)
                q(f"{nm}[n={m}]", z3.BoolVal(got) == spec if isinstance(got, bool) else got == spec,
                  lambda mod, nm=nm, m=m: {"fn": nm, "n": m, "s": gi(mod, "s"), "e": gi(mod, "e"), "v": gi(mod, "v")})
    elif kind == "between_cmp":
        M = p["M"]
        for m in [None] + [m for m in range(-M, M + 1) if m != 0]:
            obj = tr.call(G["between"], a, b) if m is None else tr.call(G["between"], a, b, modulo=m)
            got = tr.call(obj, v)
            q(f"between(a,b,modulo={m})", got == _spec_range(v, a, b, m),
              lambda mod, m=m: {"fn": "between", "a": gi(mod, "a"), "b": gi(mod, "b"), "modulo": m, "v": gi(mod, "v")})
        for nm, spec in (("lt", v < a), ("gt", v > a), ("lte", v <= a), ("gte", v >= a)):
            got = tr.call(tr.call(G[nm], a), v)
            q(nm, got == spec, lambda mod, nm=nm: {"fn": nm, "a": gi(mod, "a"), "v": gi(mod, "v")})
    elif kind == "symbolic_modulus":
        n = z3.Int("n")
        obj = tr.call(G["every"], n, s, e)
        got = tr.call(obj, v)
        spec = _spec_range(v, s, e, n)
        r = prove(z3.Implies(n != 0, got == spec), timeout_ms=p.get("timeout_ms", 60000), cross=False)
        r["name"] = "every(n,s,e) with symbolic n != 0 (non-linear; informational)"
        if r["status"] == "refuted":
            # a model of a quantified/non-linear query must be confirmed concretely
            cex.append({"args": {"fn": "every(n,s,e)", "n": gi(r["model"], "n"), "s": gi(r["model"], "s"),
                                 "e": gi(r["model"], "e"), "v": gi(r["model"], "v")},
                        "kind": "property", "message": "symbolic modulus", "detail": {"fp": "C12:z:every"}})
        queries.append(r)
    else:
        raise Unsupported(kind)

    proved = sum(1 for r in queries if r["status"] == "proved")
    inconcl = [r["name"] for r in queries if r["status"] == "inconclusive"]
    informational = kind == "symbolic_modulus"
    return {
        "paths": len(queries), "confirmed": proved, "refuted": len(cex), "unknown": 0 if informational else len(inconcl),
        "ignored": 0, "exhausted": informational or not inconcl, "timed_out": False,
        "z3_calls": len(queries), "z3_secs": sum(r.get("z3_s") or 0 for r in queries),
        "z3_unsat": proved, "z3_sat": len(cex), "z3_unknown": len(inconcl),
        "obligations": len(queries), "validated_concretely": validated,
        "counterexamples": cex[:6],
        "samples": [{k: r.get(k) for k in ("name", "status", "z3", "z3_s", "cvc5", "cvc5_s")} for r in queries[:3]],
        "queries": {"n": len(queries), "proved_by_z3_and_cvc5": proved, "inconclusive": inconcl[:10],
                    "functions_encoded_from_source": tr.encoded,
                    "cvc5_secs": round(sum(r.get("cvc5_s") or 0 for r in queries), 3)},
    }


def replay_special(case, args):
    """Concrete replay of a Z counterexample against the real functions."""
    import ptera.tools as T

    fn = args["fn"]
    v = args["v"]

    def spec(v, start, end, modulo):
        if start is not None and not start <= v:
            return False
        if end is not None and not v < end:
            return False
        if modulo is not None:
            base = start if start is not None else 0
            q, r = divmod(v - base, abs(modulo))
            return r == 0
        return True

    if fn == "Range":
        got = T.Range(start=args["start"], end=args["end"], modulo=args["modulo"])(v)
        exp = spec(v, args["start"], args["end"], args["modulo"])
    elif fn.startswith("every"):
        n, s, e = args["n"], args.get("s"), args.get("e")
        table = {
            "every(n,s,e)": (lambda: T.every(n, s, e), (s, e)), "every(n)": (lambda: T.every(n), (0, None)),
            "every(n,start=s)": (lambda: T.every(n, start=s), (s, None)),
            "every(n,end=e)": (lambda: T.every(n, end=e), (0, e)),
            "every(n,s,None)": (lambda: T.every(n, s, None), (s, None)),
            "every(n,None,e)": (lambda: T.every(n, None, e), (None, e)),
        }
        mk, (ss, ee) = table[fn]
        got = mk()(v)
        exp = spec(v, ss, ee, n)
    elif fn == "between":
        m = args["modulo"]
        got = (T.between(args["a"], args["b"]) if m is None else T.between(args["a"], args["b"], modulo=m))(v)
        exp = spec(v, args["a"], args["b"], m)
    else:
        got = getattr(T, fn)(args["a"])(v)
        exp = {"lt": v < args["a"], "gt": v > args["a"], "lte": v <= args["a"], "gte": v >= args["a"]}[fn]
    rep = bool(got) != bool(exp)
    return rep, f"{fn} {args}: real={got!r} spec={exp!r}", f"C12:z:{fn.split('(')[0]}"


# ==========================================================================
# Engine X harnesses
# ==========================================================================


def _programs():
    """Loop programs whose captured values are symbolic.  Fresh function objects per build."""
    src = '''
def g(z):
    w = z + 1
    return w

def f1(x0, step, n):
    acc = 0
    for i in range(n):
        x = x0 + i * step
        y = x * 2 + 1
        acc = acc + y
    return acc

def f2(x0, step, n):
    acc = 0
    for i in range(n):
        x = x0 + i * step
        if i >= 1:
            acc = acc + g(x - 2 * step - 1)
        y = x + 7
        acc = acc + y
    return acc

def f4(x0, step, n):
    tot = 0
    for i in range(n):
        x = x0 + i * step
        y = x + 1
        late = y * 2
        tot = tot + late
    return tot

def f3(x0, step, n):
    acc = 0
    for i in range(n):
        x = x0 + i * step
        acc = acc + g(x + i)
        acc = acc + g(acc)
    return acc
'''
    import linecache

    fname = f"<pv-c12-{id(src)}>"
    linecache.cache[fname] = (len(src), None, src.splitlines(True), fname)
    ns = {"__name__": "pv_c12_prog"}
    exec(compile(src, fname, "exec"), ns)
    return ns


def _collect(sel, env, call, overridable=False, override=None):
    from ptera import probing

    out = []
    with probing(sel, env=env, overridable=overridable) as prb:
        if override is not None:
            prb.override(override)
        prb.subscribe(lambda d: out.append(dict(d)))
        rv = call()
    return out, rv


def build(case):
    from pv.engine.xsym import assume, pick, require

    p = case["params"]
    kind = p["kind"]
    twin = bool(case.get("vacuity_twin"))

    if kind == "pred":
        import ptera.tools as T

        MX = p["M"]

        def h_pred(v: int, s: int, e: int, nsel: int, form: int):
            n = pick(nsel, 2 * MX + 1) - MX
            assume(n != 0)
            fm = pick(form, 9)
            if fm == 0:
                got, exp = T.every(n, s, e)(v), (s <= v < e and (v - s) % abs(n) == 0)
            elif fm == 1:
                got, exp = T.every(n)(v), (0 <= v and v % abs(n) == 0)
            elif fm == 2:
                got, exp = T.every(n, start=s)(v), (s <= v and (v - s) % abs(n) == 0)
            elif fm == 3:
                got, exp = T.every(n, end=e)(v), (0 <= v < e and v % abs(n) == 0)
            elif fm == 4:
                got, exp = T.between(s, e)(v), (s <= v < e)
            elif fm == 5:
                got, exp = T.lt(s)(v), v < s
            elif fm == 6:
                got, exp = T.gt(s)(v), v > s
            elif fm == 7:
                got, exp = T.lte(s)(v), v <= s
            else:
                got, exp = T.gte(s)(v), v >= s
            if twin:
                require(bool(got) != bool(exp), "vacuity twin", {"fp": "twin"})
            else:
                require(bool(got) == bool(exp), f"predicate form {fm} n={n} differs from its stated meaning",
                        {"fp": f"C12:x:pred:form{fm}"})

        return h_pred

    if kind == "throttle":
        import ptera.tools as T

        K = p["K"]

        def ref_machine(period, vals):
            cur = trig = None
            out = []
            for v in vals:
                if cur is None:
                    cur, trig = v, v + period
                if v == cur:
                    out.append(True)
                elif v >= trig:
                    cur = v
                    trig = trig + period
                    out.append(True)
                else:
                    out.append(False)
            return out

        def h_throttle(period: int, v0: int, d1: int, d2: int, d3: int):
            assume(period >= 1)
            ds = [d1, d2, d3][: K - 1]
            vals = [v0]
            for d in ds:
                assume(d >= 0)
                vals.append(vals[-1] + d)
            t = T.throttle(period)
            got = [bool(t(v)) for v in vals]
            exp = ref_machine(period, vals)
            if twin:
                require(got != exp, "vacuity twin", {"fp": "twin"})
            else:
                require(got == exp, "throttle differs from the reference state machine", {"fp": "C12:x:throttle"})
                require(got[0] is True, "first value must pass", {"fp": "C12:x:throttle-first"})

        return h_throttle

    if kind == "filter":
        N = p["N"]
        which = p["sel"]

        def h_filter(x0: int, step: int, n: int, tp: int, tq: int):
            assume(0 <= n <= N)
            ns = _programs()
            P = lambda v: v >= tp  # noqa: E731  symbolic threshold lives in the closure
            Q = lambda v: v < tq  # noqa: E731
            env = dict(ns, P=P, Q=Q)
            if which == "eq":
                sel_c, sel_u, fn = "f1(x=3) > y", "f1(x) > y", ns["f1"]
                keep = lambda ev: ev["x"] == 3  # noqa: E731
            elif which == "pred":
                sel_c, sel_u, fn = "f1(x~P) > y", "f1(x) > y", ns["f1"]
                keep = lambda ev: P(ev["x"])  # noqa: E731
            elif which == "focuspred":
                sel_c, sel_u, fn = "f1(x) > y~P", "f1(x) > y", ns["f1"]
                keep = lambda ev: P(ev["y"])  # noqa: E731
            elif which == "sibling":
                sel_c, sel_u, fn = "f2(x~P, g(z~Q)) > y", "f2(x, g(z)) > y", ns["f2"]
                keep = lambda ev: P(ev["x"]) and ("z" not in ev or Q(ev["z"]))  # noqa: E731
            elif which == "chain":
                sel_c, sel_u, fn = "f3(x~P) > g(z~Q) > w", "f3(x) > g(z) > w", ns["f3"]
                keep = lambda ev: P(ev["x"]) and Q(ev["z"])  # noqa: E731
            elif which == "nested_only":  # the only condition sits on a nested call
                sel_c, sel_u, fn = "f3(x) > g(z~Q) > w", "f3(x) > g(z) > w", ns["f3"]
                keep = lambda ev: Q(ev["z"])  # noqa: E731
            elif which == "nested_only_eq":
                sel_c, sel_u, fn = "f3 > g(z=4) > w", "f3 > g(z) > w", ns["f3"]
                keep = lambda ev: ev["z"] == 4  # noqa: E731
            elif which == "sibling_only":
                sel_c, sel_u, fn = "f2(x, g(z~Q)) > y", "f2(x, g(z)) > y", ns["f2"]
                keep = lambda ev: ("z" not in ev or Q(ev["z"]))  # noqa: E731
            elif which == "late_first":  # a constrained variable that is not captured yet is listed before one that is
                sel_c, sel_u, fn = "f4(late~Q, x~P) > y", "f4(late, x) > y", ns["f4"]
                keep = lambda ev: ("late" not in ev or Q(ev["late"])) and P(ev["x"])  # noqa: E731
            elif which == "late_first_eq":
                sel_c, sel_u, fn = "f4(late=4, i=1) > y", "f4(late, i) > y", ns["f4"]
                keep = lambda ev: ("late" not in ev or ev["late"] == 4) and ev["i"] == 1  # noqa: E731
            elif which == "chain_eq":
                sel_c, sel_u, fn = "f3(x=5) > g(z~Q) > w", "f3(x) > g(z) > w", ns["f3"]
                keep = lambda ev: ev["x"] == 5 and Q(ev["z"])  # noqa: E731
            else:
                raise ValueError(which)
            call = lambda: fn(x0, step, n)  # noqa: E731
            unc, rv_u = _collect(sel_u, env, call)
            con, rv_c = _collect(sel_c, env, call)
            exp = [ev for ev in unc if keep(ev)]
            if twin:
                require(con != exp or len(exp) == 0 or len(exp) == len(unc), "vacuity twin", {"fp": "twin"})
                return
            require(rv_u == rv_c, "probing changed the return value", {"fp": f"C12:x:filter:{which}:rv"})
            require(len(con) == len(exp), "constrained selector delivered a different number of events than "
                    "the unconstrained stream filtered by the predicate",
                    {"fp": f"C12:x:filter:{which}:count", "got": len(con), "exp": len(exp)})
            for a, b in zip(con, exp):
                require(a == b, "constrained selector delivered a different event",
                        {"fp": f"C12:x:filter:{which}:event"})

        return h_filter

    if kind == "override":
        N = p["N"]
        which = p["sel"]

        def nested_override(x0, step, n, tp, V):
            """Override of g's `w` under a condition that sits only on the nested call g(z~P)."""
            from ptera import probing

            ns = _programs()
            P = lambda v: v >= tp  # noqa: E731
            env = dict(ns, P=P)
            f3 = ns["f3"]

            def twin_f3():
                acc = 0
                for i in range(n):
                    x = x0 + i * step
                    for z in (x + i, None):
                        if z is None:
                            z = acc
                        w = z + 1
                        if P(z):
                            w = V
                        acc = acc + w
                return acc

            with probing("f3 > g(z~P) > w", env=env, overridable=True) as ov:
                ov.override(lambda d: V)
                rv = f3(x0, step, n)
            exp = twin_f3()
            if twin:
                require(rv != exp or n == 0, "vacuity twin", {"fp": "twin"})
                return
            require(rv == exp, "override not applied exactly under the nested call's condition",
                    {"fp": "C12:x:override:nested:rv"})

        def h_override(x0: int, step: int, n: int, tp: int, V: int):
            assume(0 <= n <= N)
            ns = _programs()
            P = lambda v: v >= tp  # noqa: E731
            env = dict(ns, P=P)
            f1 = ns["f1"]
            if which == "ctx":
                sel = "f1(x~P) > y"
                cond = lambda x, y: P(x)  # noqa: E731
            elif which == "focus":
                sel = "f1(x) > y~P"
                cond = lambda x, y: P(y)  # noqa: E731
            else:
                sel = "f1(x=3) > y"
                cond = lambda x, y: x == 3  # noqa: E731
            if which == "nested":
                return nested_override(x0, step, n, tp, V)
            if which == "multi":
                # two conditional overrides on the same binding: each applies under its own condition, the more recently
                # activated one wins where both hold, and a declining one leaves the other's answer alone
                from ptera import probing

                V2 = V + 1000

                def twin_multi():
                    acc = 0
                    for i in range(n):
                        x = x0 + i * step
                        y = x * 2 + 1
                        if P(x):
                            y = V2
                        elif x == 3:
                            y = V
                        acc = acc + y
                    return acc

                with probing("f1(x=3) > y", env=env, overridable=True) as o1:
                    o1.override(lambda d: V)
                    with probing("f1(x~P) > y", env=env, overridable=True) as o2:
                        o2.override(lambda d: V2)
                        rv = f1(x0, step, n)
                exp = twin_multi()
                if twin:
                    require(rv != exp or n == 0, "vacuity twin", {"fp": "twin"})
                    return
                require(rv == exp, "two conditional overrides on one binding: not each applied exactly under its own condition "
                        "(most recent wins where both hold)", {"fp": "C12:x:override:multi:rv"})
                return

            # substitution twin, written by hand from the program text
            def twin_f1():
                acc = 0
                log = []
                for i in range(n):
                    x = x0 + i * step
                    y = x * 2 + 1
                    if cond(x, y):
                        y = V
                    log.append(y)
                    acc = acc + y
                return acc, log

            from ptera import probing

            seen = []
            with probing(sel, env=env, overridable=True) as ov:
                ov.override(lambda d: V)
                with probing("f1 > y", env=env) as plain:
                    plain.subscribe(lambda d: seen.append(d["y"]))
                    rv = f1(x0, step, n)
            exp_rv, exp_log = twin_f1()
            if twin:
                require(rv != exp_rv or n == 0, "vacuity twin", {"fp": "twin"})
                return
            require(rv == exp_rv, "override not applied exactly under the selector's condition",
                    {"fp": f"C12:x:override:{which}:rv"})
            require(seen == exp_log, "plain probe does not see the conditionally substituted values",
                    {"fp": f"C12:x:override:{which}:stream"})

        return h_override

    raise ValueError(kind)


def cases(tier, seed):
    th = tier == "thorough"
    MZ = 64 if th else 12
    MX = 8 if th else 4
    N = 4 if th else 3
    cs = [
        {"id": "z:validate", "kind": "zsmt", "params": {"kind": "validate"}},
        {"id": "z:range", "kind": "zsmt", "params": {"kind": "range", "M": MZ}},
        {"id": "z:every", "kind": "zsmt", "params": {"kind": "every", "M": MZ}},
        {"id": "z:between_cmp", "kind": "zsmt", "params": {"kind": "between_cmp", "M": MZ}},
        {"id": "x:pred", "params": {"kind": "pred", "M": MX}, "budget_s": 600 if th else 200},
        {"id": "x:pred:twin", "params": {"kind": "pred", "M": 1}, "vacuity_twin": True, "budget_s": 60,
         "stop_on_refute": True},
        {"id": "x:throttle", "params": {"kind": "throttle", "K": 4 if th else 3}, "budget_s": 300},
        {"id": "x:throttle:twin", "params": {"kind": "throttle", "K": 3}, "vacuity_twin": True, "budget_s": 60,
         "stop_on_refute": True},
    ]
    if th:
        cs.append({"id": "z:symbolic_modulus", "kind": "zsmt",
                   "params": {"kind": "symbolic_modulus", "timeout_ms": 120000}})
    for which in ("eq", "pred", "focuspred", "sibling", "chain", "chain_eq", "nested_only", "nested_only_eq",
                  "sibling_only", "late_first", "late_first_eq"):
        cs.append({"id": f"x:filter:{which}", "params": {"kind": "filter", "sel": which, "N": N},
                   "budget_s": 1500 if th else 240})
    cs.append({"id": "x:filter:pred:twin", "params": {"kind": "filter", "sel": "pred", "N": 2},
               "vacuity_twin": True, "budget_s": 120, "stop_on_refute": True})
    for which in ("ctx", "focus", "eq", "nested", "multi"):
        cs.append({"id": f"x:override:{which}", "params": {"kind": "override", "sel": which, "N": N},
                   "budget_s": 1500 if th else 240})
    cs.append({"id": "x:override:ctx:twin", "params": {"kind": "override", "sel": "ctx", "N": 2},
               "vacuity_twin": True, "budget_s": 120, "stop_on_refute": True})
    return cs
