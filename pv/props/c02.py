"""C02 -- a probe's stream is exactly the binding history of its focus variable.

The real probe pipeline (probing -> autotool -> transform_for -> proceed -> interact ->
Immediate -> Probe._emit -> giving) is executed symbolically on a template; an
independently generated *trace twin* of the same template (pv/refinst.py) is executed on
the same symbolic arguments; the delivered list must equal the twin's binding history of
the focus (with the latest same-activation values of the context variables) as one
formula over the symbolic inputs.
"""

from __future__ import annotations

from pv.corpus.templates import BY_NAME, TEMPLATES, generated
from pv.props.c01 import _fn_holder, _observe

PROPERTY = "C02"

META = {
    "level": "model_checking",
    "technique": "bounded symbolic execution (CrossHair/z3) of the real probe pipeline vs an independent reference instrumenter (trace twin)",
    "functions": [
        "ptera.transform.PteraTransformer.generate_interactions/visit_Assign/_decompose/visit_AugAssign/visit_AnnAssign/"
        "visit_For/visit_ExceptHandler/visit_Import(From)/visit_NamedExpr (their output is executed)",
        "ptera.interpret.Interactor.interact", "ptera.interpret.WorkingFrame.log/trigger", "ptera.interpret.Immediate.log",
        "ptera.interpret.BaseAccumulator._call_with_snapshot/fork/build", "ptera.interpret.Capture.set/snapshot",
        "ptera.overlay.HandlerCollection.proceed/fits_selector", "ptera.probe.Probe._emit/_enter/_exit", "giving SourceProxy._push/subscribe",
    ],
    "bounds": {
        "quick": {"ints": "unbounded", "trip_counts": "<= 3", "generator_driver_ops": 3,
                  "focus": "every listed variable of every template", "context": "<= 1 other variable"},
        "thorough": {"ints": "unbounded", "trip_counts": "<= 3", "generator_driver_ops": 4,
                     "focus": "every listed variable", "context": "0, 1 and 2 other variables; raw mode on every template"},
    },
    "out_of_scope": [
        "programs outside the template catalogue", "attribute/subscript stores as focus (not in the property's list)",
        "relative order of parameter events of *different* parameters (Python binds them at once; the property is silent): "
        "a context variable that is itself a parameter may be present or absent in an entry event of another parameter",
        "templates whose transparency is already broken (C01 findings: unpack kinds/length, starred, nested class)",
    ],
    "assumptions": ["transform executed natively", "the twin (pv/refinst.py) encodes Python's binding semantics; "
                    "validated by vacuity twins and by agreeing with ptera on the defect-free templates"],
}

_OK_DEFECTS = None  # every template (all isolated defects have been repaired; see known_findings.jsonl)


def expected_events(rec, fname, focus, ctx):
    """Binding history of `focus` in activations of `fname`, from the twin's log."""
    out = []
    for e in rec.log():
        if e[0] != "bind" or e[2] != focus:
            continue
        fr = rec.acts[e[1]]
        if fr.fname != fname:
            continue
        latest = e[4]
        ev = {focus: e[3]}
        optional = {}
        is_param = len(e) > 5
        for c in ctx:
            if is_param and c in fr.params:
                optional[c] = None
            elif c in latest:
                ev[c] = latest[c]
        out.append((ev, optional, e[1]))
    return out


def build(case):
    from ptera import probing
    from pv.corpus.base import Recorder, load, norm
    from pv.engine.xsym import pick, require

    p = case["params"]
    tmpl = BY_NAME[p["template"]]
    focus, ctx, raw = p["focus"], p["ctx"], p.get("raw", False)
    L = p.get("L", 3)
    twin = bool(case.get("vacuity_twin"))
    fq = tmpl["funcs"][0]
    fname = fq.split(".")[-1]
    fpbase = f"C02:{tmpl['name']}"

    def core(a, b, c, d, ops, vals):
        rec = Recorder()
        ns_t, H_t = load(tmpl, twin=True, recorder=rec)
        _observe(ns_t, H_t, tmpl, (a, b, c, d), ops, vals)
        exp = expected_events(rec, fname, focus, ctx)

        ns_i, H_i = load(tmpl)
        _, _, selfn = _fn_holder(ns_i, tmpl)
        sel = f"{selfn}({', '.join(ctx)}) > {focus}" if ctx else f"{selfn} > {focus}"
        got = []
        keep = []
        with probing(sel, env=ns_i, raw=raw) as prb:
            if raw:
                def on(d):
                    keep.append(d)
                    got.append({k: cap.value for k, cap in d.items()})
                prb.subscribe(on)
            else:
                prb.subscribe(lambda d: got.append(dict(d)))
            _observe(ns_i, H_i, tmpl, (a, b, c, d), ops, vals)
        if twin:
            require(len(exp) < 2 or got != [e[0] for e in exp], "vacuity twin", {"fp": "twin"})
            return
        require(len(got) == len(exp),
                f"probe on `{focus}` delivered {len(got)} events, the binding history has {len(exp)}",
                {"fp": f"{fpbase}:count:{'missing' if len(got) < len(exp) else 'extra'}", "sel": sel})
        for g, (ev, optional, _aid) in zip(got, exp):
            g2 = {k: v for k, v in g.items() if k not in optional}
            require(set(g2) == set(ev), "event carries a different set of variables than were bound at that moment",
                    {"fp": f"{fpbase}:keys", "sel": sel, "got": sorted(g2), "exp": sorted(ev)})
            for k in ev:
                require(norm(g2[k]) == norm(ev[k]), f"event value of `{k}` differs from the value bound at that moment",
                        {"fp": f"{fpbase}:value:{'focus' if k == focus else 'context'}", "sel": sel})
        if raw:
            # delivered snapshots are not aliased: re-read after the call
            for d, (ev, optional, _aid) in zip(keep, exp):
                require(d[focus].names == [focus], "raw capture does not report the variable's name",
                        {"fp": f"{fpbase}:names"})
                require([norm(x) for x in d[focus].values] == [norm(ev[focus])], "delivered snapshot changed after delivery (aliased)",
                        {"fp": f"{fpbase}:aliased"})

    if tmpl["gen"]:
        if L == 3:
            def h_gen(a: int, b: int, c: int, d: int, o1: int, o2: int, o3: int, s1: int, s2: int, s3: int):
                core(a, b, c, d, [pick(o1, 4), pick(o2, 4), pick(o3, 4)], [s1, s2, s3])
            return h_gen

        def h_gen4(a: int, b: int, c: int, d: int, o1: int, o2: int, o3: int, o4: int,
                   s1: int, s2: int, s3: int, s4: int):
            core(a, b, c, d, [pick(o1, 4), pick(o2, 4), pick(o3, 4), pick(o4, 4)], [s1, s2, s3, s4])
        return h_gen4

    def h(a: int, b: int, c: int, d: int):
        core(a, b, c, d, None, None)

    return h


def cases(tier, seed):
    th = tier == "thorough"
    L = 4 if th else 3
    cs = []
    gens = generated(seed, 40 if th else 8)
    for t in TEMPLATES + gens:
        for i, v in enumerate(t["vars"] if (th or not t.get("generated")) else t["vars"][:4]):
            others = [c for c in t["ctx"] if c != v]
            ctxsets = [[]] if (i == 0 or th) else []
            ctxsets += [[c] for c in (others if th else others[:1])]
            if th and len(others) >= 2:
                ctxsets.append(others[:2])
            if not ctxsets:
                ctxsets = [[]]
            for cx in ctxsets:
                for raw in ([False, True] if (th or (i == 0 and cx)) else [False]):
                    cid = f"{t['name']}:{v}" + (":ctx=" + "+".join(cx) if cx else "") + (":raw" if raw else "")
                    cs.append({"id": cid, "params": {"template": t["name"], "focus": v, "ctx": cx, "raw": raw, "L": L},
                               "budget_s": (900 if th else 150) if t["gen"] else (300 if th else 90)})
    for name, v, cx in (("plain", "u", ["x"]), ("for_loop", "acc", ["i"]), ("gen_loop", "tot", ["i"])):
        cs.append({"id": f"{name}:{v}:twin", "params": {"template": name, "focus": v, "ctx": cx, "L": 3},
                   "vacuity_twin": True, "stop_on_refute": True, "budget_s": 60})
    return cs
