"""C09 -- a suspended generator does not leak its call-path context to its caller.

A symbolic operation list over {enter overlay, leave overlay, create generator 1/2, next,
close, call the plain function from the driver} drives the real code.  The driver is
top-level code, so after every step the handler collection installed in the context must
consist of exactly the handlers of the overlays whose with-block is open, and the overlay on
`gen > a_fn > a` must have received events only for a_fn calls made by a generator body
(the overlay on `a_fn > a` for every call made while it is open).  A path reports *every*
distinct discrepancy it meets (classified by what is wrong, not by solver values).
A second harness puts the driver inside an instrumented function `drv` and checks that the
selector of the enclosing function (`drv > a_fn > a`) keeps matching.
"""

from __future__ import annotations

PROPERTY = "C09"

META = {
    "level": "model_checking",
    "technique": "bounded symbolic execution (CrossHair/z3) of generator/overlay operation histories vs an 'open overlays only' model",
    "functions": [
        "ptera.overlay.proceed.__enter__/__exit__", "ptera.overlay.HandlerCollection.current/proceed/plus",
        "ptera.overlay.BaseOverlay.__enter__/__exit__", "ptera.transform.PteraTransformer.visit_FunctionDef (with proceed around the "
        "generator body)/visit_Yield (output executed)", "ptera.probe.Probe._enter/_exit",
    ],
    "bounds": {"quick": {"history_length": "<= 4 operations over 9 kinds (top-level driver; 5 after the prefixes enter/create/next), <= 5 (driver inside an instrumented "
                                                   "function); two generators (2 yields, 1 yield)"},
               "thorough": {"history_length": "<= 5 (top-level driver), <= 6 (enclosed driver)"}},
    "out_of_scope": ["dropping the last reference (garbage collection) -- only explicit close() is driven",
                     "more than two generators / two independently toggled overlays", "generators resumed from another thread"],
    "assumptions": ["transform executed natively", "each path runs in a copy of the context",
                    "probe activation/deactivation (concrete data only) executed natively; calls, generator steps and event "
                    "delivery are executed under the tracer"],
}

SRC = '''
def a_fn(v):
    a = v
    return a

def gen(k, n):
    for i in range(n):
        r = a_fn(k + i)
        yield r

def drv(E):
    gs = {}
    out = []
    for op in E:
        if op == 3 or op == 4:
            gs[op - 3] = gen(100 * (op - 2), 5 - op)
        elif op == 5 or op == 6:
            try:
                out.append(next(gs[op - 5]))
            except StopIteration:
                pass
        elif op == 7 or op == 8:
            gs[op - 7].close()
        elif op == 9:
            out.append(a_fn(7 + len(out)))
    for g in gs.values():
        g.close()
    return out
'''
TMPL = {"name": "c09", "src": SRC, "funcs": ["gen"], "gen": False}


def build(case):
    import contextvars

    from crosshair.tracers import NoTracing
    from ptera import probing
    from ptera.overlay import HandlerCollection
    from ptera.probe import global_probes
    from ptera.selector import select
    from pv.corpus.base import load
    from pv.engine.xsym import PropertyFailure, assume, pick, require

    p = case["params"]
    twin = bool(case.get("vacuity_twin"))
    first, second, third = p.get("first"), p.get("second"), p.get("third")

    def run_top(base, ops):
        ns, _ = load(TMPL)
        if p.get("pretooled"):
            # the functions are instrumented permanently (@tooled.inplace): generators created while no overlay is
            # open run instrumented code too
            from ptera import tooled

            with NoTracing():
                tooled.inplace(ns["gen"])
                tooled.inplace(ns["a_fn"])
        a_fn, gen = ns["a_fn"], ns["gen"]
        fails = []

        def soft(cond, fp, msg):
            if not cond and fp not in fails:
                fails.append(fp)
                msgs.append(msg)

        msgs = []
        ov = None  # (probe_gen, probe_plain, list_gen, list_plain, roots)
        ov2 = None  # second, independently toggled overlay: (probe on `a_fn > a`, list, roots)   [ops 10 / 11]
        exp_o2 = []
        two = bool(p.get("two"))
        ended_roots = []  # handler objects of overlays that have ended
        ended_lists = []  # (event list of an ended overlay's probe, its length when the overlay ended)
        gens = {0: None, 1: None}  # k -> [generator, state, crossed]  state: 'new' | 'susp' | 'done'
        genlog = {0: 0, 1: 0}  # next value index per generator
        exp_gen, exp_plain = [], []
        dontcare = []
        ncalls = 0
        try:
            for step, opsym in enumerate(ops):
                op = pick(opsym, 12 if two else 10)
                if step == 0 and first is not None:
                    assume(op == first)
                if step == 1 and second is not None:
                    assume(op == second)
                if step == 2 and third is not None:
                    assume(op == third)
                if op == 0:
                    break
                if op == 1:
                    assume(ov is None)
                    lg, lp = [], []
                    with NoTracing():  # activation handles concrete data only: run it natively (much faster)
                        s1, s2 = select("gen > a_fn > a", env=ns), select("a_fn > a", env=ns)
                        pg, pp = probing(s1), probing(s2)
                        pg.__enter__()
                        pg.subscribe(lambda d: lg.append(d["a"]))
                        pp.__enter__()
                        pp.subscribe(lambda d: lp.append(d["a"]))
                    ov = (pg, pp, lg, lp, list(pg._ol.handlers) + list(pp._ol.handlers))
                    exp_gen, exp_plain = [], []
                    for g in gens.values():
                        if g and g[1] == "susp":
                            g[2] = True
                elif op == 2:
                    assume(ov is not None)
                    with NoTracing():
                        ov[1].__exit__(None, None, None)
                        ov[0].__exit__(None, None, None)
                    ended_roots += ov[4]
                    ended_lists.append((ov[2], len(ov[2])))
                    ended_lists.append((ov[3], len(ov[3])))
                    ov = None
                    for g in gens.values():
                        if g and g[1] == "susp":
                            g[2] = True
                elif op == 10:
                    assume(ov2 is None)
                    lq = []
                    with NoTracing():
                        pq = probing(select("a_fn > a", env=ns))
                        pq.__enter__()
                        pq.subscribe(lambda d: lq.append(d["a"]))
                    ov2 = (pq, lq, list(pq._ol.handlers))
                    exp_o2 = []
                    for g in gens.values():
                        if g and g[1] == "susp":
                            g[2] = True
                elif op == 11:
                    assume(ov2 is not None)
                    with NoTracing():
                        ov2[0].__exit__(None, None, None)
                    ended_roots += ov2[2]
                    ended_lists.append((ov2[1], len(ov2[1])))
                    ov2 = None
                    for g in gens.values():
                        if g and g[1] == "susp":
                            g[2] = True
                elif op in (3, 4):
                    k = op - 3
                    assume(gens[k] is None)
                    # [3]: overlay instance under which the generator was created (it runs the code installed at that
                    # moment) AND first advanced; anything else is "not stated" for the gen-selector
                    gens[k] = [gen(base + 100 * k, 2 - k), "new", False, None, ov]  # generator 1: two yields, generator 2: one
                elif op in (5, 6):
                    k = op - 5
                    assume(gens[k] is not None and gens[k][1] != "done")
                    try:
                        if gens[k][1] == "new":
                            gens[k][3] = ov if gens[k][4] is ov else "other"
                        val = next(gens[k][0])
                        gens[k][1] = "susp"
                        want = base + 100 * k + genlog[k]
                        genlog[k] += 1
                        soft(val == want, "C09:value:yielded", "generator yielded a wrong value")
                        if ov2 is not None:
                            exp_o2.append(want)
                        if ov is not None:
                            exp_plain.append(want)
                            if gens[k][3] is ov:
                                exp_gen.append(want)
                            else:
                                # the generator's activation began before this overlay was entered: whether it counts
                                # as an ancestor is not stated by the property -> not asserted either way
                                dontcare.append(want)
                    except StopIteration:
                        gens[k][1] = "done"
                elif op in (7, 8):
                    k = op - 7
                    assume(gens[k] is not None and gens[k][1] != "done")
                    gens[k][0].close()
                    gens[k][1] = "done"
                else:  # 9: the driver itself calls the plain function
                    v = base + 1000 + step
                    rv = a_fn(v)
                    soft(rv == v, "C09:value:plain-call", "plain call returned a wrong value")
                    ncalls += 1
                    if ov is not None:
                        exp_plain.append(v)
                    if ov2 is not None:
                        exp_o2.append(v)
                # ---------------- model: what must hold after this step
                susp = any(g and g[1] == "susp" for g in gens.values())
                crossed = any(g and g[2] for g in gens.values())
                sit = "gen-suspended" if susp else ("gen-finished-across-overlay-boundary" if crossed else "no-gen-in-flight")
                cur = HandlerCollection.current.get()
                pairs = list(cur.handler_pairs) if cur is not None else []
                open_roots = (ov[4] if ov is not None else []) + (ov2[2] if ov2 is not None else [])

                def origin(acc):
                    root = acc
                    while getattr(root, "parent", None) is not None:
                        root = root.parent
                    return root

                extra_kinds = set()
                for _sel, acc in pairs:
                    if any(acc is r for r in open_roots):
                        continue
                    if any(acc is r for r in ended_roots):
                        extra_kinds.add("root-of-ended-overlay")
                    else:
                        # a forked accumulator: belongs to an activation (a generator body)
                        extra_kinds.add("activation-pair")
                for kind in sorted(extra_kinds):
                    soft(False, f"C09:current:{sit}:extra:{kind}",
                         f"handlers installed for the surrounding code contain a {kind} ({sit})")
                for r in open_roots:
                    soft(any(acc is r for _s, acc in pairs), f"C09:current:{sit}:missing:root-of-open-overlay",
                         f"a handler of an open overlay is no longer installed ({sit})")
                for lst, n_at_end in ended_lists:
                    soft(len(lst) == n_at_end, f"C09:events:ended-overlay-received:{sit}",
                         "a probe whose with-block has ended received an event (from a generator resumed afterwards?)")
                if ov is not None:
                    got_g, got_p = [x for x in ov[2] if not any(x == y for y in dontcare)], ov[3]
                    if len(got_g) != len(exp_gen) or any(x != y for x, y in zip(got_g, exp_gen)):
                        soft(False, f"C09:events:gen-selector:{'extra' if len(got_g) > len(exp_gen) else 'missing-or-wrong'}:{sit}",
                             f"`gen > a_fn > a` received events other than those of calls made by a generator body (step {step}: {len(got_g)} events, expected {len(exp_gen)})")
                    if len(got_p) != len(exp_plain) or any(x != y for x, y in zip(got_p, exp_plain)):
                        soft(False, f"C09:events:plain-selector:{'extra' if len(got_p) > len(exp_plain) else 'missing-or-wrong'}:{sit}",
                             "`a_fn > a` did not receive exactly the calls made while its overlay was open")
                if ov2 is not None:
                    got_q = ov2[1]
                    if len(got_q) != len(exp_o2) or any(x != y for x, y in zip(got_q, exp_o2)):
                        soft(False, f"C09:events:second-overlay:{'extra' if len(got_q) > len(exp_o2) else 'missing-or-wrong'}:{sit}",
                             "the second overlay's `a_fn > a` did not receive exactly the calls made while it was open")
            if twin:
                require(not (ncalls >= 1 and not fails), "vacuity twin", {"fp": "twin"})
                return
            if fails:
                raise PropertyFailure("; ".join(msgs[:3]), {"fps": list(fails), "fp": fails[0]})
        finally:
            for g in gens.values():
                if g:
                    try:
                        g[0].close()
                    except Exception:
                        pass
            if ov2 is not None:
                try:
                    ov2[0].__exit__(None, None, None)
                except Exception:
                    pass
            if ov is not None:
                for pr in (ov[1], ov[0]):
                    try:
                        pr.__exit__(None, None, None)
                    except Exception:
                        pass
            global_probes.clear()

    def run_enclosed(base, ops):
        """Driver inside an instrumented function: its own selector keeps matching."""
        ns, _ = load(TMPL)
        script = []
        g_state = {0: None, 1: None}
        for step, opsym in enumerate(ops):
            op = pick(opsym, 8) + 2  # 2 == stop, 3..9
            if step == 0 and first is not None:
                assume(op == first)
            if step == 1 and second is not None:
                assume(op == second)
            if op == 2:
                break
            if op in (3, 4):
                assume(g_state[op - 3] is None)
                g_state[op - 3] = "new"
            if op in (5, 6, 7, 8):
                k = (op - 5) % 2
                assume(g_state[k] is not None and g_state[k] != "closed")
                if op >= 7:
                    g_state[k] = "closed"
            script.append(op)
        # reference: plain python run of the same script
        ref_ns, _ = load(TMPL)
        ref = ref_ns["drv"](list(script))
        got_drv, got_gen = [], []
        with NoTracing():
            s1, s2 = select("drv > a_fn > a", env=ns), select("gen > a_fn > a", env=ns)
        with probing(s1) as p1, probing(s2) as p2:
            p1.subscribe(lambda d: got_drv.append(d["a"]))
            p2.subscribe(lambda d: got_gen.append(d["a"]))
            out = ns["drv"](list(script))
        if twin:
            require(not (len(ref) >= 2 and got_drv == ref), "vacuity twin", {"fp": "twin"})
            return
        require(out == ref, "instrumented driver returned different values", {"fp": "C09:enclosed:result"})
        require(got_drv == ref, "the selector of the enclosing function (`drv > a_fn > a`) did not match every a_fn call made "
                "under drv (directly or from a generator body)", {"fp": "C09:enclosed:enclosing-selector"})
        exp_gen = [v for v in ref if v >= 100]
        require(got_gen == exp_gen, "`gen > a_fn > a` did not fire exactly for the calls made by generator bodies",
                {"fp": "C09:enclosed:gen-selector:" + ("extra" if len(got_gen) > len(exp_gen) else "missing-or-wrong")})

    fn = run_top if p["kind"] == "top" else run_enclosed

    def wrap(base, ops):
        contextvars.copy_context().run(fn, base, ops)

    n = p["n"]
    from pv.engine.xsym import int_harness

    return int_harness(lambda base, *ops: wrap(base, list(ops)), ["base"] + [f"o{i}" for i in range(n)])


def cases(tier, seed):
    th = tier == "thorough"
    n = 5 if th else 4
    cs = []
    for first in (1, 3, 4, 9):  # histories must start by entering the overlay, creating a generator or a plain call
        for second in range(10):
            if second in (2,) and first != 1:
                continue
            if second == first and first in (1, 3, 4):
                continue
            if second in (5, 7) and first != 3:
                continue
            if second in (6, 8) and first != 4:
                continue
            if second == 0:
                cs.append({"id": f"top:ops={first},0", "params": {"kind": "top", "n": n, "first": first, "second": 0},
                           "budget_s": 100})
                continue
            for third in range(10):
                cs.append({"id": f"top:ops={first},{second},{third}",
                           "params": {"kind": "top", "n": n, "first": first, "second": second, "third": third},
                           "budget_s": 5000 if th else 250, "per_path_s": 30})
    # permanently tooled functions: generators that start while no overlay is open
    for (f1, f2, f3, nn) in ((1, 3, 5, 5), (1, 4, 6, 5), (3, 5, 1, 5), (3, 5, 5, 5), (3, 4, 5, 5), (3, 1, 5, 5), (3, 5, 9, 4), (3, 5, 7, 4), (3, 4, 6, 4), (4, 6, 1, 5), (4, 6, 6, 4)):
        cs.append({"id": f"pretooled:ops={f1},{f2},{f3}:n={nn}",
                   "params": {"kind": "top", "n": nn + (1 if th else 0), "first": f1, "second": f2, "third": f3, "pretooled": True},
                   "budget_s": 5000 if th else 250, "per_path_s": 30})
    # a second, independently toggled overlay (ops 10/11) around generators that are suspended under the first one
    for (f1, f2, f3) in ((1, 3, 5), (1, 4, 6), (10, 4, 6), (10, 3, 5)):
        cs.append({"id": f"two:ops={f1},{f2},{f3}", "params": {"kind": "top", "n": 6 if th else 5, "first": f1, "second": f2, "third": f3,
                                                              "two": True}, "budget_s": 5000 if th else 250, "per_path_s": 30})
    if not th:
        # one level deeper where it matters most: a generator created and advanced under an open overlay, then two more steps
        for (f1, f2, f3) in ((1, 3, 5), (1, 4, 6), (3, 1, 5), (1, 3, 3)):
            cs.append({"id": f"top5:ops={f1},{f2},{f3}", "params": {"kind": "top", "n": 5, "first": f1, "second": f2, "third": f3},
                       "budget_s": 250, "per_path_s": 30})
    for first in (3, 4, 9):
        for second in range(2, 10):
            cs.append({"id": f"enclosed:ops={first},{second}", "params": {"kind": "enclosed", "n": 6 if th else 5, "first": first,
                                                                         "second": second}, "budget_s": 3000 if th else 250})
    cs.append({"id": "top:twin", "params": {"kind": "top", "n": 5, "first": 1, "second": 9}, "vacuity_twin": True,
               "stop_on_refute": True, "budget_s": 100})
    cs.append({"id": "enclosed:twin", "params": {"kind": "enclosed", "n": 5}, "vacuity_twin": True, "stop_on_refute": True,
               "budget_s": 100})
    return cs
