"""C17 -- a probe's stream opens once, completes once at exit, and is silent outside.

A symbolic operation list over {attach a non-reducing stage, attach a reducing stage
(max/min/count/sum/last in rotation), activate, call f(v), deactivate normally,
deactivate by exception, re-activation attempt} drives one real probe (probing -> giving ->
reactivex, all real); call values are symbolic, so the published reductions are compared as
formulas.  After every step the outputs, completion counts and the instrumentation state
must match a small window model (events of calls made while active and after the stage's
own attachment).
"""

from __future__ import annotations

PROPERTY = "C17"

META = {
    "level": "model_checking",
    "technique": "bounded symbolic execution (CrossHair/z3) of probe lifecycle histories vs an event-window model; reductions as formulas",
    "functions": [
        "ptera.probe.Probe.__init__/_enter/_exit/activate/deactivate/_emit", "giving.gvn.SourceProxy.__enter__/__exit__/_push/subscribe",
        "giving operators max/min/count/sum/last/getitem (real reactivex pipeline)", "ptera.overlay.BaseOverlay.__enter__/__exit__",
        "ptera.overlay.autotool", "ptera.probe.global_probes",
    ],
    "bounds": {"quick": {"history_length": "<= 5 operations over 7 kinds", "values": "each call argument an unbounded Int"},
               "thorough": {"history_length": "<= 6", "values": "as quick"}},
    "out_of_scope": ["max/min/last/sum of an empty window: no value is defined; only 'no value published' is asserted "
                     "(errors are routed to an on_error handler)", "asynchronous operators (sample, throttle, ...)",
                     "interpreter-exit completion of global probes (atexit)"],
    "assumptions": ["transform executed natively", "each path runs in a copy of the context"],
}

SRC = '''
def f(v):
    x = v
    return x + 1
'''
TMPL = {"name": "c17", "src": SRC, "funcs": ["f"], "gen": False}
KINDS = ["max", "count", "last", "sum", "min"]


def reduce_ref(kind, vals):
    if kind == "count":
        return [len(vals)]
    if not vals:
        return []  # max/min/last/sum of an empty window: no value is defined (giving reports an error to on_error)
    if kind == "sum":
        return [sum(vals)]
    if kind == "last":
        return [vals[-1]]
    m = vals[0]
    for v in vals[1:]:
        if (kind == "max" and v > m) or (kind == "min" and v < m):
            m = v
    return [m]


def build(case):
    import contextvars

    from crosshair.tracers import NoTracing
    from ptera import probing
    from ptera.overlay import HandlerCollection
    from ptera.probe import global_probes
    from ptera.selector import select
    from pv.corpus.base import load
    from pv.engine.xsym import assume, int_harness, pick, require

    p = case["params"]
    twin = bool(case.get("vacuity_twin"))
    first, second = p.get("first"), p.get("second")
    n = p["n"]

    def run(vals, ops):
        ns, _ = load(TMPL)
        f = ns["f"]
        orig = f.__code__
        with NoTracing():
            sel = select("f > x", env=ns)
        P = probing(sel)
        state = "new"  # new | active | done
        stages = []  # dict(kind, out, err, done, seen(list of expected inputs), attached_state)
        nred = 0
        ncalls = 0
        try:
            for step, opsym in enumerate(ops):
                op = pick(opsym, 8)
                if step == 0 and first is not None:
                    assume(op == first)
                if step == 1 and second is not None:
                    assume(op == second)
                if op == 0:
                    break
                if op in (1, 2):
                    st = {"kind": "accum", "out": [], "err": [], "done": [], "inputs": [], "when": state}
                    if op == 1:
                        obs = P["x"]
                    else:
                        st["kind"] = KINDS[nred % len(KINDS)]
                        nred += 1
                        obs = getattr(P["x"], st["kind"])()
                    obs.subscribe(st["out"].append, st["err"].append, lambda st=st: st["done"].append(1))
                    st["obs"] = obs
                    stages.append(st)
                elif op == 3:
                    assume(state == "new")
                    # through the most recently derived handle when there is one (as in `with probing(..)["x"].max():`),
                    # alternating between the context-manager and the activate() spelling
                    handle = stages[-1]["obs"] if stages else P
                    if len(stages) % 2:
                        handle.activate()
                    else:
                        handle.__enter__()
                    state = "active"
                elif op == 4:
                    v = vals[step]
                    rv = f(v)
                    require(rv == v + 1, "call returned a wrong value", {"fp": "C17:return-value"})
                    ncalls += 1
                    if state == "active":
                        for st in stages:
                            if st["when"] != "done":
                                st["inputs"].append(v)
                elif op in (5, 6):
                    assume(state == "active")
                    if op == 5:
                        handle = stages[-1]["obs"] if stages else P
                        if len(stages) % 2:
                            handle.deactivate()
                        else:
                            handle.__exit__(None, None, None)
                    else:
                        e = ValueError("leaving by exception")
                        P.__exit__(ValueError, e, None)
                    state = "done"
                    for st in stages:
                        if st["when"] != "done":
                            st["completed"] = True
                else:  # 7: second activation attempt
                    assume(state != "new")
                    refused = False
                    try:
                        P.__enter__()
                    except Exception:
                        refused = True
                    if not twin:
                        require(refused, "a second activation of the same probe was not refused", {"fp": "C17:reactivation-not-refused"})
                if twin:
                    continue
                # ---------------- model after this step
                for i, st in enumerate(stages):
                    completed = st.get("completed", False)
                    if st["kind"] == "accum":
                        exp = st["inputs"]
                        require(len(st["out"]) == len(exp) and all(a == b for a, b in zip(st["out"], exp)),
                                "a non-reducing stage does not hold exactly the events of calls made while the probe was active "
                                "and after the stage was attached",
                                {"fp": f"C17:accum:{'extra' if len(st['out']) > len(exp) else 'missing-or-wrong'}:"
                                       f"attached-{st['when']}:probe-{state}"})
                    else:
                        if not completed:
                            require(len(st["out"]) == 0, "a reduction published a value before the stream completed",
                                    {"fp": f"C17:reduce:{st['kind']}:early"})
                        else:
                            exp = reduce_ref(st["kind"], st["inputs"])
                            require(len(st["out"]) == len(exp), f"a reduction published {len(st['out'])} values at completion, "
                                    f"expected {len(exp)}", {"fp": f"C17:reduce:{st['kind']}:count"})
                            require(all(a == b for a, b in zip(st["out"], exp)),
                                    "a reduction was not computed from precisely the events of the active period",
                                    {"fp": f"C17:reduce:{st['kind']}:value"})
                    want_done = 1 if (completed and not st["err"]) else 0
                    require(len(st["done"]) == want_done and len(st["err"]) <= 1,
                            "the stream was not completed exactly once at deactivation",
                            {"fp": f"C17:completion:{'twice' if len(st['done']) > want_done else 'missing'}:{st['kind']}"})
                if state != "active":
                    require(f.__code__ is orig, "probe not active but the function does not run its original code",
                            {"fp": f"C17:code-not-restored:probe-{state}"})
                    cur = HandlerCollection.current.get()
                    require(cur is None or not cur.handler_pairs, "probe not active but handlers remain installed",
                            {"fp": f"C17:handlers-left:probe-{state}"})
                else:
                    require(f.__code__ is not orig, "probe active but the function is not instrumented",
                            {"fp": "C17:not-instrumented-while-active"})
            if twin:
                tot = sum(len(st["out"]) for st in stages)
                require(not (ncalls >= 1 and tot >= 2 and state == "done"), "vacuity twin", {"fp": "twin"})
        finally:
            if state == "active":
                try:
                    P.__exit__(None, None, None)
                except Exception:
                    pass
            global_probes.clear()

    def wrap(*a):
        vals, ops = list(a[:n]), list(a[n:])
        contextvars.copy_context().run(run, vals, ops)

    return int_harness(wrap, [f"v{i}" for i in range(n)] + [f"o{i}" for i in range(n)])


def cases(tier, seed):
    th = tier == "thorough"
    n = 6 if th else 5
    cs = []
    for first in (1, 2, 3, 4):
        for second in range(8):
            if (first != 3 and second in (5, 6, 7)) or (first == 3 and second == 3):
                continue
            cs.append({"id": f"ops={first},{second}", "params": {"n": n, "first": first, "second": second},
                       "budget_s": 5000 if th else 250, "per_path_s": 30})
    cs.append({"id": "twin", "params": {"n": 5, "first": 1, "second": 3}, "vacuity_twin": True, "stop_on_refute": True,
               "budget_s": 100})
    return cs
