"""Engine Z: direct SMT queries generated from the live source.

(a) ``PyToZ3``: a small symbolic evaluator over the *current* AST of a Python
    module (used for ptera/tools.py).  Integers are mathematical ``Int``s
    (= Python ``int``); ``%`` gets Python's floor semantics; optional
    arguments are case-split (None / present) so ``is None`` tests fold.
    Source it cannot encode raises :class:`Unsupported` (reported as a harness
    error, never as success).
(b) ``sre_to_z3``: translation of ``re._parser`` trees to z3 regular
    expressions (used for the selector lexer).
Queries are discharged by the z3 Python API and cross-checked with the cvc5
binary on the SMT-LIB2 text z3 prints; any ``(error`` or disagreement is
inconclusive.
"""

from __future__ import annotations

import ast
import inspect
import os
import subprocess
import tempfile
import time

import z3


class Unsupported(Exception):
    pass


def pymod(a, b):
    """Python's a % b (sign of the divisor) in terms of SMT-LIB mod (non-negative)."""
    if isinstance(b, int):
        if b > 0:
            return a % b
        if b < 0:
            return -((-a) % (-b))
        raise ZeroDivisionError
    return z3.If(b > 0, a % b, -((-a) % (-b)))


class Obj:
    def __init__(self, cls):
        self.cls = cls
        self.attrs = {}


class Closure:
    def __init__(self, node, env, interp):
        self.node, self.env, self.interp = node, env, interp

    def __call__(self, *args, **kwargs):
        return self.interp.call_function(self.node, self.env, args, kwargs)


class _Return(Exception):
    def __init__(self, v):
        self.v = v


def _is_sym(x):
    return isinstance(x, z3.ExprRef)


def _truth(x):
    """Python truthiness as concrete bool or z3 Bool."""
    if _is_sym(x):
        if z3.is_bool(x):
            return x
        return x != 0
    return bool(x)


class PyToZ3:
    def __init__(self, module):
        self.src = inspect.getsource(module)
        self.tree = ast.parse(self.src)
        self.globals = {}
        self.encoded = []
        for node in self.tree.body:
            if isinstance(node, ast.FunctionDef):
                self.globals[node.name] = Closure(node, self.globals, self)
            elif isinstance(node, ast.ClassDef):
                self.globals[node.name] = node
            elif isinstance(node, (ast.Import, ast.ImportFrom, ast.Expr)):
                continue
            else:
                raise Unsupported(f"top-level {type(node).__name__}")

    # -- calls ---------------------------------------------------------
    def instantiate(self, clsnode, args, kwargs):
        obj = Obj(clsnode)
        init = self._method(clsnode, "__init__")
        if init is not None:
            self.call_function(init, self.globals, (obj, *args), kwargs)
        return obj

    def _method(self, clsnode, name):
        for n in clsnode.body:
            if isinstance(n, ast.FunctionDef) and n.name == name:
                return n
        return None

    def call(self, fn, *args, **kwargs):
        if isinstance(fn, ast.ClassDef):
            return self.instantiate(fn, args, kwargs)
        if isinstance(fn, Obj):
            m = self._method(fn.cls, "__call__")
            if m is None:
                raise Unsupported("object not callable")
            return self.call_function(m, self.globals, (fn, *args), kwargs)
        if isinstance(fn, Closure):
            return fn(*args, **kwargs)
        raise Unsupported(f"call of {fn!r}")

    def call_function(self, node, env, args, kwargs):
        name = getattr(node, "name", "<lambda>")
        if name not in self.encoded:
            self.encoded.append(name)
        a = node.args
        if a.vararg or a.kwarg or a.kwonlyargs or a.posonlyargs:
            raise Unsupported("parameter kind")
        params = [p.arg for p in a.args]
        local = {}
        defaults = [self.eval(d, env) for d in a.defaults]
        for p, d in zip(params[len(params) - len(defaults):], defaults):
            local[p] = d
        for p, v in zip(params, args):
            local[p] = v
        for k, v in kwargs.items():
            if k not in params:
                raise Unsupported("unknown kwarg")
            local[k] = v
        for p in params:
            if p not in local:
                raise Unsupported(f"missing argument {p}")
        scope = _Scope(local, env)
        if isinstance(node, ast.Lambda):
            return self.eval(node.body, scope)
        return self.block(node.body, scope)

    # -- statements ----------------------------------------------------
    def block(self, stmts, env):
        for i, st in enumerate(stmts):
            if isinstance(st, ast.Return):
                return self.eval(st.value, env) if st.value is not None else None
            elif isinstance(st, ast.If):
                c = _truth(self.eval(st.test, env))
                rest = stmts[i + 1:]
                if _is_sym(c):
                    e1, e2 = env.fork(), env.fork()
                    r1 = self.block(list(st.body) + rest, e1)
                    r2 = self.block(list(st.orelse) + rest, e2)
                    # merge object attribute updates is not needed for the encoded subset
                    if e1.touched or e2.touched:
                        raise Unsupported("state update under a symbolic branch (use run_stateful)")
                    return self.ite(c, r1, r2)
                return self.block(list(st.body if c else st.orelse) + rest, env)
            elif isinstance(st, ast.Assign):
                if len(st.targets) != 1:
                    raise Unsupported("chained assign")
                v = self.eval(st.value, env)
                self.assign(st.targets[0], v, env)
            elif isinstance(st, ast.AugAssign):
                cur = self.eval(_load(st.target), env)
                v = self.binop(st.op, cur, self.eval(st.value, env))
                self.assign(st.target, v, env)
            elif isinstance(st, ast.Expr) and isinstance(st.value, ast.Constant):
                continue
            elif isinstance(st, ast.Pass):
                continue
            else:
                raise Unsupported(f"statement {type(st).__name__}")
        return None

    def ite(self, c, a, b):
        if a is b:
            return a
        if isinstance(a, bool) and isinstance(b, bool):
            if a == b:
                return a
            return c if a else z3.Not(c)
        return z3.If(c, _lift(a), _lift(b))

    def assign(self, tgt, v, env):
        if isinstance(tgt, ast.Name):
            env.set(tgt.id, v)
        elif isinstance(tgt, ast.Attribute):
            o = self.eval(tgt.value, env)
            if not isinstance(o, Obj):
                raise Unsupported("attribute store on non-object")
            o.attrs[tgt.attr] = v
            env.touch()
        else:
            raise Unsupported("assignment target")

    # -- expressions ---------------------------------------------------
    def binop(self, op, l, r):
        if isinstance(op, ast.Add):
            return l + r
        if isinstance(op, ast.Sub):
            return l - r
        if isinstance(op, ast.Mult):
            return l * r
        if isinstance(op, ast.Mod):
            if not _is_sym(l) and not _is_sym(r):
                return l % r
            return pymod(_lift(l), r)
        raise Unsupported(f"operator {type(op).__name__}")

    def eval(self, e, env):
        if isinstance(e, ast.Constant):
            if e.value is None or isinstance(e.value, (bool, int)):
                return e.value
            raise Unsupported("constant")
        if isinstance(e, ast.Name):
            return env.get(e.id)
        if isinstance(e, ast.Attribute):
            o = self.eval(e.value, env)
            if isinstance(o, Obj):
                if e.attr in o.attrs:
                    return o.attrs[e.attr]
                m = self._method(o.cls, e.attr)
                if m is not None:
                    return Closure(m, self.globals, self)
            raise Unsupported("attribute")
        if isinstance(e, ast.BinOp):
            return self.binop(e.op, self.eval(e.left, env), self.eval(e.right, env))
        if isinstance(e, ast.UnaryOp):
            v = self.eval(e.operand, env)
            if isinstance(e.op, ast.Not):
                t = _truth(v)
                return z3.Not(t) if _is_sym(t) else (not t)
            if isinstance(e.op, ast.USub):
                return -v
            raise Unsupported("unary")
        if isinstance(e, ast.BoolOp):
            # Python value semantics with short-circuit (the encoded subset is side-effect free,
            # so evaluating the rest under a symbolic guard is sound)
            def go(vals):
                v = self.eval(vals[0], env)
                if len(vals) == 1:
                    return v
                t = _truth(v)
                if not _is_sym(t):
                    if isinstance(e.op, ast.And):
                        return go(vals[1:]) if t else v
                    return v if t else go(vals[1:])
                rest = go(vals[1:])
                if isinstance(e.op, ast.And):
                    return self.ite(t, rest, v)
                return self.ite(t, v, rest)

            return go(list(e.values))
        if isinstance(e, ast.Compare):
            left = self.eval(e.left, env)
            out = True
            for op, rn in zip(e.ops, e.comparators):
                right = self.eval(rn, env)
                c = self.compare(op, left, right)
                out = c if out is True else (z3.And(_lift(out), _lift(c)) if (_is_sym(out) or _is_sym(c)) else (out and c))
                left = right
            return out
        if isinstance(e, ast.Call):
            fn = self.eval(e.func, env)
            args = [self.eval(a, env) for a in e.args]
            kwargs = {k.arg: self.eval(k.value, env) for k in e.keywords}
            if any(k is None for k in kwargs):
                raise Unsupported("**kwargs")
            return self.call(fn, *args, **kwargs)
        if isinstance(e, ast.Lambda):
            return Closure(e, env, self)
        raise Unsupported(f"expression {type(e).__name__}")

    def compare(self, op, l, r):
        if isinstance(op, (ast.Is, ast.IsNot)):
            if l is None or r is None:
                same = l is r
            elif _is_sym(l) or _is_sym(r):
                raise Unsupported("identity of symbolic values")
            else:
                same = l is r
            return same if isinstance(op, ast.Is) else not same
        if l is None or r is None:
            if isinstance(op, ast.Eq):
                return l is r
            if isinstance(op, ast.NotEq):
                return l is not r
            raise Unsupported("ordering comparison with None (TypeError in Python)")
        table = {
            ast.Lt: lambda: l < r, ast.LtE: lambda: l <= r, ast.Gt: lambda: l > r,
            ast.GtE: lambda: l >= r, ast.Eq: lambda: l == r, ast.NotEq: lambda: l != r,
        }
        if type(op) not in table:
            raise Unsupported("comparison")
        return table[type(op)]()


def _load(t):
    t2 = ast.parse(ast.unparse(t), mode="eval").body
    return t2


def _lift(x):
    if isinstance(x, bool):
        return z3.BoolVal(x)
    if isinstance(x, int):
        return z3.IntVal(x)
    return x


class _Scope:
    def __init__(self, local, parent, touched_box=None):
        self.local, self.parent = local, parent
        self.touched = False

    def get(self, k):
        if k in self.local:
            return self.local[k]
        if isinstance(self.parent, _Scope):
            return self.parent.get(k)
        if k in self.parent:
            return self.parent[k]
        raise Unsupported(f"name {k}")

    def set(self, k, v):
        self.local[k] = v

    def touch(self):
        self.touched = True

    def fork(self):
        return _Scope(dict(self.local), self.parent)


# --------------------------------------------------------------------------
# discharge
# --------------------------------------------------------------------------


def prove(claim, assumptions=(), timeout_ms=20000, cross=True):
    """Prove `assumptions => claim` for all values: assert the negation, expect unsat.

    Returns dict(status='proved'|'refuted'|'inconclusive', model, z3_s, cvc5, cvc5_s).
    """
    s = z3.Solver()
    s.set("timeout", timeout_ms)
    for a in assumptions:
        s.add(a)
    s.add(z3.Not(claim))
    t0 = time.perf_counter()
    r = str(s.check())
    out = {"z3": r, "z3_s": round(time.perf_counter() - t0, 4), "model": None, "cvc5": None, "cvc5_s": None}
    if r == "sat":
        m = s.model()
        out["model"] = {str(d): str(m[d]) for d in m.decls()}
        out["status"] = "refuted"
        return out
    if r != "unsat":
        out["status"] = "inconclusive"
        return out
    out["status"] = "proved"
    if cross:
        c, cs = cvc5_check(s.to_smt2())
        out["cvc5"], out["cvc5_s"] = c, cs
        if c != "unsat":
            out["status"] = "inconclusive"
    return out


def cvc5_check(smt2, timeout_s=30):
    fd, path = tempfile.mkstemp(suffix=".smt2", prefix="pv_")
    try:
        with os.fdopen(fd, "w") as f:
            f.write("(set-logic ALL)\n" + smt2)
        t0 = time.perf_counter()
        try:
            p = subprocess.run(["cvc5", f"--tlimit={timeout_s * 1000}", path], capture_output=True,
                               text=True, timeout=timeout_s + 5)
        except (subprocess.TimeoutExpired, FileNotFoundError) as e:
            return f"error:{type(e).__name__}", round(time.perf_counter() - t0, 3)
        txt = (p.stdout + p.stderr).strip()
        if "(error" in txt or "error" in txt.lower():
            return "error:" + txt[:200], round(time.perf_counter() - t0, 3)
        first = txt.splitlines()[0] if txt else "empty"
        return first, round(time.perf_counter() - t0, 3)
    finally:
        try:
            os.remove(path)
        except OSError:
            pass


# --------------------------------------------------------------------------
# regex translation (re._parser tree -> z3 Re)
# --------------------------------------------------------------------------


def sre_to_z3(pattern):
    """Translate a Python regex (subset) into a z3 regular expression over strings.

    Word-boundary assertions (\\b) are dropped, which *over*-approximates the
    language; callers only ask questions that stay sound under that
    (e.g. "the empty string is not matched").
    Returns (re, notes).
    """
    import re._parser as sp
    import re._constants as sc

    notes = []
    tree = sp.parse(pattern)

    def charset(items):
        alts = []
        negate = False
        for op, av in items:
            if op is sc.NEGATE:
                negate = True
            elif op is sc.LITERAL:
                alts.append(z3.Re(chr(av)))
            elif op is sc.RANGE:
                alts.append(z3.Range(chr(av[0]), chr(av[1])))
            elif op is sc.CATEGORY:
                alts.append(category(av))
            else:
                raise Unsupported(f"regex set item {op}")
        u = alts[0] if len(alts) == 1 else z3.Union(*alts)
        if negate:
            any1 = z3.AllChar(z3.ReSort(z3.StringSort()))
            return z3.Intersect(any1, z3.Complement(u))
        return u

    def category(av):
        if av is sc.CATEGORY_SPACE:
            notes.append("\\s modelled as ASCII whitespace [ \\t\\n\\r\\f\\v] (Unicode spaces are treated by the "
                         "lexer the same way by str.strip(); stated as a restriction)")
            return z3.Union(*[z3.Re(c) for c in " \t\n\r\f\v"])
        if av is sc.CATEGORY_DIGIT:
            return z3.Range("0", "9")
        raise Unsupported(f"regex category {av}")

    def seq(items):
        parts = [node(op, av) for op, av in items]
        parts = [p for p in parts if p is not None]
        if not parts:
            return z3.Re("")
        return parts[0] if len(parts) == 1 else z3.Concat(*parts)

    def node(op, av):
        if op is sc.LITERAL:
            return z3.Re(chr(av))
        if op is sc.NOT_LITERAL:
            any1 = z3.AllChar(z3.ReSort(z3.StringSort()))
            return z3.Intersect(any1, z3.Complement(z3.Re(chr(av))))
        if op is sc.IN:
            return charset(av)
        if op is sc.ANY:
            return z3.AllChar(z3.ReSort(z3.StringSort()))
        if op is sc.SUBPATTERN:
            return seq(av[3])
        if op is sc.BRANCH:
            return z3.Union(*[seq(b) for b in av[1]])
        if op in (sc.MAX_REPEAT, sc.MIN_REPEAT):
            lo, hi, sub = av
            r = seq(sub)
            if hi is sc.MAXREPEAT:
                if lo == 0:
                    return z3.Star(r)
                if lo == 1:
                    return z3.Plus(r)
                return z3.Concat(*([r] * lo), z3.Star(r))
            return z3.Loop(r, lo, hi)
        if op is sc.AT:
            notes.append(f"assertion {av} dropped (over-approximation)")
            return None
        if op is sc.CATEGORY:
            return category(av)
        raise Unsupported(f"regex node {op}")

    return seq(list(tree)), notes
