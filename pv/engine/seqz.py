"""Engine S: sequentialiser.

Rewrites the *current source* of ptera's shared-state functions into generator
coroutines with a scheduling point after every simple statement (and between the load and
the store of an augmented assignment to an attribute / subscript), so that several virtual
threads can be interleaved deterministically inside one OS thread -- each virtual thread
stepped inside its own contextvars.Context, like a real thread.  The statements
themselves are executed by Python on the real objects: only atomicity is modelled.

A call whose callee (function, bound method, super() method, or class with a rewritten
__init__) is in the rewritten set is executed as a nested coroutine (`yield from`), every
other call natively and atomically.  `with <lock>:` becomes acquire/release of a
virtual-thread-aware lock: a thread that cannot acquire is disabled, not spinning.
Shapes the rewriter does not support keep the enclosing function atomic and are reported as
*coarsened* (fewer interleavings, never a false alarm).
"""

from __future__ import annotations

import ast
import inspect
import textwrap
import threading
import types


class Unsupported(Exception):
    pass


class VLock:
    """Virtual-thread-aware re-entrant lock standing for a threading.(R)Lock object."""

    def __init__(self):
        self.owner = None
        self.depth = 0


class Machine:
    """Holds the rewritten functions and the state of the virtual threads."""

    def __init__(self):
        self.table = {}  # original function object -> generator function
        self.points = {}  # original function -> list of (lineno, kind)
        self.coarsened = []
        self.locks = {}  # id(real lock) -> VLock
        self.current = None  # id of the running virtual thread

    # ---------------------------------------------------------------- runtime helpers
    def call(self, func, *args, **kwargs):
        """Generator: run func as a coroutine if it was rewritten, else natively."""
        target = None
        owner = getattr(func, "__self__", None)
        if owner is not None and _is_lock(owner) and getattr(func, "__name__", "") in ("acquire", "release"):
            # explicit lock.acquire() / lock.release() inside a rewritten function: the virtual lock
            if func.__name__ == "acquire":
                yield from self.acquire(owner)
                return True
            self.release(owner)
            return None
        if isinstance(func, types.MethodType) and func.__func__ in self.table:
            target, args = self.table[func.__func__], (func.__self__,) + args
        elif isinstance(func, types.FunctionType) and func in self.table:
            target = self.table[func]
        elif isinstance(func, type):
            init = func.__dict__.get("__init__")
            if init is None:
                for klass in func.__mro__[1:]:
                    init = klass.__dict__.get("__init__")
                    if init is not None:
                        break
            if isinstance(init, types.FunctionType) and init in self.table and type(func) is type:
                obj = func.__new__(func)
                yield from self.table[init](obj, *args, **kwargs)
                return obj
        elif type(func).__name__ == "method-wrapper":
            pass
        if target is None:
            # super().meth bound through a super object
            f2 = getattr(func, "__func__", None)
            if f2 is not None and f2 in self.table:
                target, args = self.table[f2], (func.__self__,) + args
        if target is None:
            return func(*args, **kwargs)
        return (yield from target(*args, **kwargs))

    def vlock(self, real):
        lk = self.locks.get(id(real))
        if lk is None:
            lk = self.locks[id(real)] = VLock()
        return lk

    def acquire(self, real):
        lk = self.vlock(real)
        while lk.owner is not None and lk.owner != self.current:
            yield ("blocked", lk)
        lk.owner = self.current
        lk.depth += 1
        # also take the real lock (all virtual threads share one OS thread, and the virtual owner check above guarantees
        # it is free or re-entrantly ours): code that runs natively may release / re-acquire it explicitly
        real.acquire()

    def release(self, real):
        lk = self.vlock(real)
        real.release()
        lk.depth -= 1
        if lk.depth == 0:
            lk.owner = None

    # ---------------------------------------------------------------- rewriting
    def add(self, fn, cls=None):
        """Rewrite function object `fn` (a plain function; `cls` = defining class for super())."""
        try:
            src = textwrap.dedent(inspect.getsource(fn))
            tree = ast.parse(src)
            node = tree.body[0]
            if not isinstance(node, ast.FunctionDef):
                raise Unsupported("not a def")
            _, first = inspect.getsourcelines(fn)
            ast.increment_lineno(tree, first - 1)
            rw = _Rewriter(fn.__name__)
            new = rw.function(node)
            mod = ast.Module(body=[new], type_ignores=[])
            ast.fix_missing_locations(mod)
            glb = _Chain(fn.__globals__, {"__pv_m": self, "__pv_cls": cls, "__pv_islock": _is_lock})
            code = compile(mod, f"<seqz:{fn.__qualname__}>", "exec")
            exec(code, glb)
            gen = glb.pop(node.name)
            gen.__pv_original__ = fn
            self.table[fn] = gen
            self.points[fn] = rw.points
        except (Unsupported, SyntaxError, OSError) as e:
            self.coarsened.append((getattr(fn, "__qualname__", str(fn)), str(e)))


def _is_lock(obj):
    return isinstance(obj, (type(threading.Lock()), type(threading.RLock())))


class _Chain(dict):
    """Globals for a rewritten function: helpers first, then the live module globals."""

    def __init__(self, base, extra):
        super().__init__(extra)
        self._base = base

    def __missing__(self, key):
        return self._base[key]


def _name(n):
    return ast.Name(id=n, ctx=ast.Load())


def _pvcall(meth, *args):
    return ast.Call(func=ast.Attribute(value=_name("__pv_m"), attr=meth, ctx=ast.Load()), args=list(args), keywords=[])


class _CallRewriter(ast.NodeTransformer):
    """f(a, b) -> (yield from __pv_m.call(f, a, b)) ; super() -> super(__pv_cls, <self>)."""

    def __init__(self, selfname):
        self.selfname = selfname

    def visit_Lambda(self, node):
        return node

    def visit_ListComp(self, node):
        return node

    visit_SetComp = visit_DictComp = visit_GeneratorExp = visit_ListComp

    def visit_FunctionDef(self, node):
        return node

    def visit_Call(self, node):
        self.generic_visit(node)
        if isinstance(node.func, ast.Name) and node.func.id == "super" and not node.args:
            return ast.Call(func=_name("super"), args=[_name("__pv_cls"), _name(self.selfname)], keywords=[])
        if any(isinstance(a, ast.Starred) for a in node.args) or any(k.arg is None for k in node.keywords):
            return node  # *args / **kwargs call: native
        if isinstance(node.func, ast.Name) and node.func.id in ("hasattr", "getattr", "isinstance", "type", "len", "list",
                                                                  "frozenset", "set", "tuple", "super"):
            return node
        call = ast.Call(func=ast.Attribute(value=_name("__pv_m"), attr="call", ctx=ast.Load()),
                        args=[node.func] + node.args, keywords=node.keywords)
        return ast.YieldFrom(value=call)


class _Rewriter:
    def __init__(self, fname):
        self.fname = fname
        self.points = []
        self.tmp = 0
        self.selfname = "self"

    def point(self, node, kind="stmt"):
        self.points.append((node.lineno, kind))
        return ast.Expr(ast.Yield(value=ast.Tuple(elts=[ast.Constant(node.lineno), ast.Constant(kind)], ctx=ast.Load())))

    def expr(self, e):
        return _CallRewriter(self.selfname).visit(e) if e is not None else None

    def block(self, stmts):
        out = []
        for s in stmts:
            out.extend(self.stmt(s))
        return out or [ast.Pass()]

    def stmt(self, s):
        if isinstance(s, ast.Expr) and isinstance(s.value, ast.Constant):
            return [s]  # docstring
        if isinstance(s, ast.AugAssign) and isinstance(s.target, (ast.Attribute, ast.Subscript)):
            # <point> ; load ; <mid point> ; store
            self.tmp += 1
            t = f"__pv_t{self.tmp}"
            p0 = self.point(s)
            load = ast.copy_location(
                ast.Assign(targets=[ast.Name(id=t, ctx=ast.Store())],
                           value=ast.BinOp(left=_load(s.target), op=s.op, right=self.expr(s.value))), s)
            store = ast.copy_location(ast.Assign(targets=[s.target], value=_name(t)), s)
            return [p0, load, self.point(s, "mid"), store]
        if isinstance(s, (ast.Assign, ast.AugAssign, ast.AnnAssign, ast.Expr, ast.Raise, ast.Assert, ast.Delete)):
            p0 = self.point(s)
            new = _CallRewriter(self.selfname).visit(s)
            return [p0, new]
        if isinstance(s, ast.Return):
            p0 = self.point(s)
            s.value = self.expr(s.value)
            return [p0, s]
        if isinstance(s, (ast.Pass, ast.Break, ast.Continue, ast.Import, ast.ImportFrom, ast.Global, ast.Nonlocal)):
            return [s]
        if isinstance(s, ast.If):
            return [self.point(s), ast.copy_location(ast.If(test=self.expr(s.test), body=self.block(s.body),
                                             orelse=self.block(s.orelse) if s.orelse else []), s)]
        if isinstance(s, ast.For):
            return [ast.copy_location(ast.For(target=s.target, iter=self.expr(s.iter), body=self.block(s.body),
                                              orelse=self.block(s.orelse) if s.orelse else [], type_comment=None), s)]
        if isinstance(s, ast.While):
            return [ast.copy_location(ast.While(test=self.expr(s.test), body=self.block(s.body),
                                                orelse=self.block(s.orelse) if s.orelse else []), s)]
        if isinstance(s, ast.Try):
            handlers = [ast.ExceptHandler(type=h.type, name=h.name, body=self.block(h.body)) for h in s.handlers]
            return [ast.copy_location(ast.Try(body=self.block(s.body), handlers=handlers,
                                              orelse=self.block(s.orelse) if s.orelse else [],
                                              finalbody=self.block(s.finalbody) if s.finalbody else []), s)]
        if isinstance(s, ast.With):
            if len(s.items) != 1 or s.items[0].optional_vars is not None:
                raise Unsupported("with statement shape")
            self.tmp += 1
            t = f"__pv_l{self.tmp}"
            ctx = s.items[0].context_expr
            # lock objects become virtual locks; anything else is not supported inside the rewritten set
            pre = [
                ast.copy_location(ast.Assign(targets=[ast.Name(id=t, ctx=ast.Store())], value=ctx), s),
                ast.copy_location(ast.Assert(test=ast.Call(func=_name("__pv_islock"), args=[_name(t)], keywords=[]),
                                             msg=ast.Constant("seqz: only lock objects are supported in with statements")), s),
                ast.copy_location(ast.Expr(ast.YieldFrom(value=_pvcall("acquire", _name(t)))), s),
            ]
            pre = [self.point(s)] + pre
            body = ast.copy_location(
                ast.Try(body=self.block(s.body), handlers=[], orelse=[],
                        finalbody=[ast.Expr(_pvcall("release", _name(t)))]), s)
            return pre + [body]
        raise Unsupported(f"statement {type(s).__name__}")

    def function(self, node):
        if node.args.args:
            self.selfname = node.args.args[0].arg
        body = self.block(node.body)
        # make it a generator even if it contains no scheduling point
        body = body + [ast.If(test=ast.Constant(False), body=[ast.Expr(ast.Yield(value=None))], orelse=[])]
        new = ast.FunctionDef(name=node.name, args=node.args, body=body, decorator_list=[], returns=None, type_comment=None)
        if hasattr(node, "type_params"):
            new.type_params = []
        return ast.copy_location(new, node)


def _load(target):
    t = ast.parse(ast.unparse(target), mode="eval").body
    return t


# --------------------------------------------------------------------------
# scheduler
# --------------------------------------------------------------------------


class VThread:
    def __init__(self, tid, gen, ctx):
        self.tid, self.gen, self.ctx = tid, gen, ctx
        self.done = False
        self.blocked_on = None
        self.steps = 0
        self.error = None


def run_schedule(machine, threads, choose, max_steps=5000):
    """Step the virtual threads.  `choose(enabled tids, previous tid, step)` -> tid.
    Returns the trace [(tid, point)]; raises on deadlock."""
    trace = []
    prev = None
    for step in range(max_steps):
        enabled = []
        for t in threads:
            if t.done:
                continue
            if t.blocked_on is not None and t.blocked_on.owner is not None and t.blocked_on.owner != t.tid:
                continue
            enabled.append(t.tid)
        if not enabled:
            if all(t.done for t in threads):
                return trace
            raise RuntimeError("deadlock among virtual threads")
        tid = choose(enabled, prev, step)
        t = threads[tid]
        machine.current = tid
        try:
            pt = t.ctx.run(next, t.gen)
            t.blocked_on = pt[1] if (isinstance(pt, tuple) and pt and pt[0] == "blocked") else None
        except StopIteration:
            t.done = True
            pt = "end"
        except Exception as e:  # the thread's program died
            t.done = True
            t.error = e
            pt = f"error:{type(e).__name__}"
        t.steps += 1
        trace.append((tid, pt if not isinstance(pt, tuple) or pt[0] != "blocked" else "blocked"))
        prev = tid
    raise RuntimeError("schedule did not terminate")
