"""Engine X: bounded symbolic execution of the real ptera code.

An own path-exploration driver built on CrossHair internals (modelled on
``crosshair.core.explore_paths``; the ``crosshair check`` CLI cannot be used
on ptera because contract enforcement bypasses ptera's interning metaclass).

A *harness* is an ordinary Python function whose annotated parameters
(``int``, ``bool``, ``List[int]`` ...) become z3 variables.  The harness runs
the real ptera code on them and calls :func:`require` for every property
obligation.  One iteration executes one path; z3 decides every branch on a
symbolic value; the search tree is shared across iterations, and
``exhausted`` means every feasible path within the harness' own bounds was
executed (the "holds within bounds" verdict).

Counterexamples are realised into concrete Python values, and are only
*candidates*: the caller replays them concretely without CrossHair.
"""

from __future__ import annotations

import inspect
import signal
import sys
import time
import traceback
from dataclasses import dataclass, field
from time import process_time
from typing import Any, Callable, Dict, List, Optional

import z3  # type: ignore

import crosshair.core_and_libs  # noqa: F401  (registers patches / opcode intercepts)
from crosshair.condition_parser import condition_parser
from crosshair.copyext import CopyMode, deepcopyext
from crosshair.core import (
    DEFAULT_OPTIONS,
    ExceptionFilter,
    Patched,
    deep_realize,
    gen_args,
    register_patch,
)
from crosshair.options import AnalysisOptionSet
from crosshair.statespace import (
    CallAnalysis,
    RootNode,
    StateSpace,
    StateSpaceContext,
    VerificationStatus,
)
from crosshair.tracers import COMPOSITE_TRACER, NoTracing, ResumedTracing, is_tracing
from crosshair.util import IgnoreAttempt, UnexploredPath


class PropertyFailure(AssertionError):
    """Raised by :func:`require` when a property obligation is false."""

    def __init__(self, msg, detail=None):
        super().__init__(msg)
        self.msg = msg
        self.detail = detail


class PathWatchdog(BaseException):
    """Raised by a SIGALRM watchdog when one path runs far beyond its time budget
    (e.g. the program under test loops forever on these inputs)."""


class Reject(Exception):
    """Raised by :func:`assume` (concrete replay) for inputs outside the bound."""


def require(cond, msg, detail=None):
    """Property obligation.  ``cond`` may be symbolic: bool() forks on it."""
    if not cond:
        raise PropertyFailure(msg, detail)


def assume(cond):
    """Restrict the input space (bounds).  Infeasible paths are pruned."""
    if not cond:
        if is_tracing():
            raise IgnoreAttempt("assume")
        raise Reject("assume")


def pick(sym, n):
    """Decode a symbolic choice into a *concrete* index in range(n).

    A comparison chain under tracing: forks on z3 comparisons and hands back a
    concrete int, so downstream hashing / indexing never realises ``sym``.
    Values outside range(n) are assumed away.
    """
    for i in range(n):
        if sym == i:
            return i
    assume(False)


def int_harness(fn, names):
    """Build `h(<names>: int ...)` calling fn(*values): fixed-arity symbolic int parameters
    (the length of a symbolic list would itself be forked on)."""
    params = ", ".join(f"{n}: int" for n in names)
    ns = {"_fn": fn}
    exec(f"def h({params}):\n    return _fn({', '.join(names)})\n", ns)
    return ns["h"]


# --------------------------------------------------------------------------
# z3 accounting
# --------------------------------------------------------------------------

_Z3 = {"calls": 0, "secs": 0.0, "sat": 0, "unsat": 0, "unknown": 0}
_orig_check = z3.Solver.check


def _counted_check(self, *a, **k):
    t0 = time.perf_counter()
    try:
        r = _orig_check(self, *a, **k)
    finally:
        _Z3["secs"] += time.perf_counter() - t0
        _Z3["calls"] += 1
    s = str(r)
    if s in _Z3:
        _Z3[s] += 1
    return r


z3.Solver.check = _counted_check


# --------------------------------------------------------------------------
# environment stub: ptera.transform.transform runs natively
# --------------------------------------------------------------------------

_patched_transform = False


def patch_ptera_transform():
    """Run ptera's compile step outside the tracer.

    ``transform(fn, proceed, to_instrument)`` only ever receives concrete
    arguments (a function object and a set of interned Elements); it calls
    inspect/tokenize/ast/compile, C code that CrossHair's ``bytes`` patch
    breaks.  Everything the compiled variant *does* is still traced.
    """
    global _patched_transform
    if _patched_transform:
        return
    import ptera  # noqa: F401

    T = sys.modules["ptera.transform"]
    orig = T.transform

    def transform_native(*a, **k):
        with NoTracing():
            return orig(*a, **k)

    register_patch(orig, transform_native)
    _patched_transform = True


# --------------------------------------------------------------------------
# exploration
# --------------------------------------------------------------------------


@dataclass
class XResult:
    paths: int = 0
    confirmed: int = 0
    refuted: int = 0
    unknown: int = 0
    ignored: int = 0
    exhausted: bool = False
    timed_out: bool = False
    z3_calls: int = 0
    z3_secs: float = 0.0
    z3_sat: int = 0
    z3_unsat: int = 0
    z3_unknown: int = 0
    cpu_s: float = 0.0
    wall_s: float = 0.0
    counterexamples: List[Dict[str, Any]] = field(default_factory=list)
    samples: List[Dict[str, Any]] = field(default_factory=list)
    unknown_reasons: List[str] = field(default_factory=list)
    harness_errors: List[str] = field(default_factory=list)

    def as_dict(self):
        return dict(self.__dict__)


def _realize_args(pre_args):
    out = {}
    for k, v in pre_args.arguments.items():
        try:
            out[k] = deep_realize(v)
        except Exception as e:  # pragma: no cover
            out[k] = f"<unrealisable: {e!r}>"
    return out


def explore(
    harness: Callable,
    *,
    timeout_s: float = 60.0,
    per_path_timeout: float = 20.0,
    max_paths: Optional[int] = None,
    stop_on_refute: bool = True,
    max_samples: int = 3,
    max_cex: int = 12,
    expected_failure: Callable[[BaseException], bool] = lambda e: False,
) -> XResult:
    """Explore every path of ``harness`` over symbolic arguments.

    Outcome of one path:
      * returns normally                 -> CONFIRMED
      * raises PropertyFailure           -> REFUTED (candidate counterexample)
      * raises another Exception         -> REFUTED with kind 'crash' (a
        harness is expected to catch everything the property allows)
      * IgnoreAttempt (assume)           -> ignored
      * UnexploredPath / solver unknown  -> UNKNOWN (makes the case inconclusive)
    """
    patch_ptera_transform()
    res = XResult()
    sig = inspect.signature(harness, eval_str=True)
    root = RootNode()
    options = DEFAULT_OPTIONS.overlay(
        AnalysisOptionSet(
            per_condition_timeout=timeout_s, per_path_timeout=per_path_timeout
        )
    )
    def _alarm(signum, frame):
        raise PathWatchdog()

    signal.signal(signal.SIGALRM, _alarm)
    seen_keys = set()
    z0 = dict(_Z3)
    t_wall = time.perf_counter()
    t_cpu = process_time()
    while True:
        now = process_time()
        if now > t_cpu + timeout_s:
            res.timed_out = True
            break
        if max_paths is not None and res.paths >= max_paths:
            break
        space = StateSpace(
            execution_deadline=now + per_path_timeout,
            model_check_timeout=per_path_timeout / 2,
            search_root=root,
        )
        stop = False
        with condition_parser(
            options.analysis_kind
        ), Patched(), COMPOSITE_TRACER, NoTracing(), StateSpaceContext(space):
            status = None
            try:
                pre_args = gen_args(sig)
                args = deepcopyext(pre_args, CopyMode.REGULAR, {})
                signal.setitimer(signal.ITIMER_REAL, per_path_timeout * 2 + 5)
                try:
                    with ExceptionFilter() as ef, ResumedTracing():
                        harness(*args.args, **args.kwargs)
                finally:
                    signal.setitimer(signal.ITIMER_REAL, 0)
                if ef.ignore:
                    status = None
                    res.ignored += 1
                elif ef.user_exc is not None:
                    exc, stack = ef.user_exc
                    status = VerificationStatus.REFUTED
                    res.refuted += 1
                    d0 = getattr(exc, "detail", None)
                    key = None
                    if isinstance(d0, dict):
                        key = "|".join(sorted(map(str, d0["fps"]))) if d0.get("fps") else d0.get("fp")
                    key = key or (getattr(exc, "msg", None) or repr(exc))
                    if key not in seen_keys and len(res.counterexamples) < max_cex:
                        seen_keys.add(key)
                        tb = "".join(
                            traceback.format_exception(type(exc), exc, exc.__traceback__)
                        )[-3000:]
                        kind = "property" if isinstance(exc, PropertyFailure) else "crash"
                        res.counterexamples.append(
                            {
                                "args": _realize_args(pre_args),
                                "kind": kind,
                                "message": getattr(exc, "msg", None) or repr(exc),
                                "detail": _safe_detail(getattr(exc, "detail", None)),
                                "traceback": tb,
                            }
                        )
                    if stop_on_refute:
                        stop = True
                else:
                    status = VerificationStatus.CONFIRMED
                    res.confirmed += 1
                    if len(res.samples) < max_samples:
                        # (realising the arguments adds solver decisions to the path: only done for the first few paths)
                        res.samples.append(_realize_args(pre_args))
            except IgnoreAttempt:
                status = None
                res.ignored += 1
            except PathWatchdog:
                status = VerificationStatus.UNKNOWN
                res.unknown += 1
                res.unknown_reasons.append("path watchdog: one path exceeded twice its time budget")
            except UnexploredPath as e:
                status = VerificationStatus.UNKNOWN
                res.unknown += 1
                if len(res.unknown_reasons) < 5:
                    res.unknown_reasons.append(f"{type(e).__name__}: {e}"[:300])
            res.paths += 1
            _, exhausted = space.bubble_status(CallAnalysis(status))
        if exhausted:
            res.exhausted = True
            break
        if stop:
            break
    res.wall_s = time.perf_counter() - t_wall
    res.cpu_s = process_time() - t_cpu
    res.z3_calls = _Z3["calls"] - z0["calls"]
    res.z3_secs = _Z3["secs"] - z0["secs"]
    res.z3_sat = _Z3["sat"] - z0["sat"]
    res.z3_unsat = _Z3["unsat"] - z0["unsat"]
    res.z3_unknown = _Z3["unknown"] - z0["unknown"]
    return res


def _safe_detail(d):
    if d is None:
        return None
    try:
        d = deep_realize(d)
    except Exception:
        pass
    try:
        import json

        json.dumps(d)
        return d
    except Exception:
        return repr(d)[:2000]


def run_concrete(harness: Callable, args: Dict[str, Any], case_id: str = "?"):
    """Replay a candidate counterexample without CrossHair.

    Returns (reproduced: bool, info: str, fingerprint: Optional[str]).
    """
    try:
        harness(**args)
    except PropertyFailure as e:
        d = e.detail if isinstance(e.detail, dict) else {}
        fp = d.get("fp") or f"{case_id}:{e.msg}"
        if d.get("fps"):
            fp = list(d["fps"])
        return True, e.msg + (f" :: {e.detail!r}" if e.detail is not None else ""), fp
    except Reject:
        return False, "input outside the harness' assumed bounds", None
    except Exception as e:
        return (
            True,
            "crash " + "".join(traceback.format_exception(type(e), e, e.__traceback__))[-2000:],
            f"{case_id}:crash:{type(e).__name__}",
        )
    return False, "harness passed on concrete replay", None
