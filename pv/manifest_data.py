"""Single source of truth for MANIFEST.json (bin/mkmanifest)."""

ALL = [f"C{i:02d}" for i in range(1, 19)]

CHECKS = {
    "C01": {
        "category": "model_checking",
        "text": "Differential bounded symbolic execution: each template program (one per statement form the property lists, "
                "control flow and data driven by symbolic ints) is run through the real rewrite (tooled, tooled.inplace, probes on "
                "every listed variable / $x / a focus-free total probe / activate-then-deactivate) and compared with the untouched "
                "function on outcome, value/exception, yielded sequence, ordered effect log and final state; CrossHair/z3 exhausts the "
                "path tree of every (template, configuration) case, counterexamples are replayed concretely.",
        "design_ref": "DESIGN.md section 4, C01",
        "note": "Program dimension enumerated (template catalogue pv/corpus/templates.py), inputs/paths decided by the solver. "
                "Trusted: CrossHair's models of int/list/tuple, transform() executed natively.",
        "technique": "differential bounded symbolic execution (CrossHair + z3) of the real rewritten code vs the untouched function",
    },
    "C02": {
        "category": "model_checking",
        "text": "Bounded symbolic execution of the real probe pipeline against an independent reference instrumenter (trace twin "
                "written from the Python language reference): for every template, focus variable and context variable the list "
                "delivered by probing() must equal the twin's binding history as a formula over symbolic inputs; path trees exhausted.",
        "design_ref": "DESIGN.md section 4, C02",
        "note": "Program dimension enumerated (templates x focus x context), inputs/paths by the solver. Trusted: the twin "
                "(pv/refinst.py), CrossHair models, transform() executed natively.",
        "technique": "bounded symbolic execution (CrossHair + z3) of probing() vs an independent trace twin",
    },
    "C04": {
        "category": "model_checking",
        "text": "Bounded symbolic execution of the real override path (OverridableProbe.override/koverride through the giving "
                "pipeline, Overlay.tweaking/rewriting) against an independent substitution twin of the same template: arguments, "
                "override constants and the decline threshold are symbolic; compared are outcome, ordered effect log, final state and "
                "the stream of a plain probe, for every listed binding form (parameter, plain/tuple/starred/aug/walrus/with/loop "
                "target, attribute store, #value, #yield), override family (constant, context-dependent, conditional via filter or "
                "ABSENT) and nesting order of two overriding and one plain probe; closure variables must raise OverrideException.",
        "design_ref": "DESIGN.md section 4, C04",
        "note": "Program dimension enumerated (36 template/focus targets). Trusted: the substitution twin, CrossHair models, "
                "native transform(), the real giving/reactivex pipeline is executed (not stubbed).",
        "technique": "bounded symbolic execution (CrossHair + z3) of the override path vs an independent substitution twin",
    },
    "C06": {
        "category": "model_checking",
        "text": "Bounded symbolic execution of real probes on every meta-variable (#enter/#exit/#value/#error/#loop_X/#endloop_X/"
                "#yield/#receive, plus wrapper probes with ! and !!) against an independent meta twin; control flow (trip counts, "
                "which iteration breaks/continues/returns/raises, return in finally) and generator driver sequences "
                "(next/send/throw/close) are symbolic; streams must be equal and properly nested; path trees exhausted.",
        "design_ref": "DESIGN.md section 4, C06",
        "note": "Program dimension enumerated (template catalogue); exit by garbage collection is not driven; GeneratorExit "
                "#error events are ignored on both sides. Trusted: the meta twin, CrossHair models, native transform().",
        "technique": "bounded symbolic execution (CrossHair + z3) of meta-variable probes vs an independent meta twin",
    },
    "C12": {
        "category": "model_checking",
        "text": "Unbounded-integer SMT proof (z3, cross-checked by cvc5) that the formulas translated from the "
                "current source of ptera/tools.py equal the stated arithmetic meaning of every/between/lt/gt/lte/gte "
                "(modulus enumerated as a constant in a stated range, every other argument an unbounded Int), plus "
                "bounded symbolic execution of the real selector-condition pipeline (probing -> check_captures -> "
                "intercept/trigger) on loop programs with symbolic values and thresholds, path tree exhausted.",
        "design_ref": "DESIGN.md section 4, C12",
        "note": "Trusted: z3/cvc5, CrossHair's int model, the AST->z3 translator (validated on the repo's own "
                "test inputs each run), transform() executed natively. Program dimension: three loop templates.",
        "technique": "SMT equivalence of source-translated predicates (z3+cvc5) + bounded symbolic execution (CrossHair/z3) of the real filter",
    },
}

CHECKS["C16"] = {
    "category": "model_checking",
    "text": "Bounded symbolic execution of the real code on five templates with declared-only variables and conditionally used "
            "undefined globals, for every subset supplied (Overlay.tweaking or OverridableProbe.override) and four instrumentation "
            "subsets (everything / the named special variables / only another variable / generic), symbolic values and path "
            "selectors, against the rule the property states; results, events and effect log are scanned for the ABSENT marker.",
    "design_ref": "DESIGN.md section 4, C16",
    "note": "Program dimension: five templates. Functions with nothing instrumented are plain Python and not checked.",
    "technique": "bounded symbolic execution (CrossHair + z3) vs the stated NameError/substitution rule, ABSENT scan",
}

CHECKS["C03"] = {
    "category": "model_checking",
    "text": "Bounded symbolic execution of the real call-path matching (HandlerCollection.proceed, fits_selector, accumulator "
            "fork/build, Immediate) over call trees of three mutually calling functions driven by a symbolic script (direct, "
            "indirect, recursive calls, repeated siblings, exceptional exits), for 35 chain/sibling selectors up to depth 3; an "
            "independent matcher computes the embeddings of the chain into the live stack at each focus binding and the context "
            "values they must carry; per binding the delivered events must equal the expected multiset; path trees exhausted.",
    "design_ref": "DESIGN.md section 4, C03",
    "note": "The solver enumerates scripts (choice vector) and decides value equalities over base+k; the order of the embeddings "
            "of one binding is not asserted. Trusted: reference matcher pv/calltree.py, twin log, CrossHair models.",
    "technique": "bounded symbolic execution (CrossHair + z3) over symbolic call-tree scripts vs an independent embedding matcher",
}
CHECKS["C07"] = {
    "category": "model_checking",
    "text": "Same symbolic call-tree family as C03 with focus-free selectors through probing(raw=True) (Total accumulators) and "
            "focused selectors forced to total mode: one record per ended outermost activation (normal or exceptional) with all "
            "values in order from matched activations underneath, none when a capture stayed empty; reference records computed "
            "from the twin's activation log; path trees exhausted.",
    "design_ref": "DESIGN.md section 4, C07",
    "note": "Each value is expected once per record however many ways the chain embeds (literal reading of the property). "
            "Trusted: reference oracle pv/calltree.py.",
    "technique": "bounded symbolic execution (CrossHair + z3) over symbolic call-tree scripts vs an independent record oracle",
}

CHECKS["C05"] = {
    "category": "model_checking",
    "text": "(1) Every history of <= 5 (thorough 7) operations over {toggle two global probes in any order, enter / leave / leave-by-"
            "exception a with-probe, call fa, call fb} with overlapping selectors is executed on the real code (the op list is symbolic, "
            "lazily decoded, sharded on its first two operations): after each step active probes got exactly that step's events, "
            "inactive ones none, and at quiescence original code objects, no handlers in the context, zero counters. (2) Inductive "
            "step on the real SyncedStackedTransforms from an arbitrary consistent counter state (unbounded symbolic multiplicities) "
            "for push/pop of any capture subset: invariant preserved and exactly the right code variant installed.",
    "design_ref": "DESIGN.md section 4, C05",
    "note": "Universe: 3 probes, 2 functions. The inductive step assumes its stated representation invariant (counts are sums of "
            "multiplicities; installed code is the variant of the active union), established by _apply on the pre-state.",
    "technique": "bounded symbolic execution (CrossHair + z3) of operation histories + one inductive step over symbolic counter states",
}

CHECKS["C09"] = {
    "category": "model_checking",
    "text": "Every history of <= 4 (thorough 6) operations over {enter overlay, leave overlay, create generator 1/2, next 1/2, "
            "close 1/2, plain call from the driver} (symbolic op list, sharded on its first three operations) is executed on the "
            "real code; after each step the installed handler collection must be exactly the handlers of the open overlays and the "
            "`gen > a_fn > a` overlay must have fired only for calls made by generator bodies; every distinct discrepancy on a path "
            "is reported, classified by what is wrong. Variants: functions permanently @tooled (generators that start while no "
            "overlay is open), and the driver inside an instrumented function (its enclosing-function selector must keep matching).",
    "design_ref": "DESIGN.md section 4, C09",
    "note": "Garbage-collection 'drop' is not driven (explicit close only). Generators created while uninstrumented, or started "
            "before the overlay was entered, are not asserted either way for the generator-ancestor selector (not stated).",
    "technique": "bounded symbolic execution (CrossHair + z3) of generator/overlay histories vs an open-overlays-only model",
}

CHECKS["C17"] = {
    "category": "model_checking",
    "text": "Every history of <= 5 (thorough 7) operations over {attach non-reducing stage, attach reducing stage "
            "(max/min/count/sum/last), activate, call, deactivate normally, deactivate by exception, re-activation attempt} on one "
            "real probe, activation/deactivation going through the root or a derived handle and through both the context-manager "
            "and activate()/deactivate() spellings; call values are unbounded symbolic ints so published reductions are compared as "
            "formulas; after each step outputs, completion counts and instrumentation state must match an event-window model.",
    "design_ref": "DESIGN.md section 4, C17",
    "note": "The real giving/reactivex pipeline runs under the tracer. Reductions of an empty window only assert 'no value'.",
    "technique": "bounded symbolic execution (CrossHair + z3) of probe lifecycle histories vs an event-window model",
}

CHECKS["C14"] = {
    "category": "model_checking",
    "text": "For five placements of a function in a generated on-disk module (module level, method, nested-class method, closure, "
            "decorated) every history of <= 5 (thorough 7) operations over {activate a probe by name, activate one by reference "
            "string (focused on another variable, i.e. another capture set), deactivate either, probe the enclosing function, call, "
            "resolve the reference} is executed on the real code, every path starting from never-instrumented functions and empty memo "
            "tables: each resolution must return that very function object, both probes must receive exactly their bindings, and after "
            "the history every reference of the module must still resolve.",
    "design_ref": "DESIGN.md section 4, C14",
    "note": "codefind lookups and probe activation run natively (concrete data); the op list and call values are symbolic.",
    "technique": "bounded symbolic execution (CrossHair + z3) of probe/resolve histories over a generated module",
}

CHECKS["C13"] = {
    "category": "model_checking",
    "text": "A population of eight receivers (plain, equal-but-distinct value objects, __eq__ without __hash__, subclass instance, "
            "receiver parameter called `this`) probed through the class, through one object chosen by a symbolic index, through a "
            "functools.wraps decorator, a property and a dotted attribute path; a symbolic sequence of calls with a symbolic argument "
            "runs on the real code; events (value, receiver identity) must be exactly those of calls whose receiver is the probed "
            "object / any instance; the homonymous module-level function keeps its code. Also: the method as a non-root step of a call "
            "path (plain and recursive), and two successive probes through different objects. Path trees exhausted.",
    "design_ref": "DESIGN.md section 4, C13",
    "note": "Configuration dimension (population, selector spellings) enumerated; probed object, call sequence and argument symbolic.",
    "technique": "bounded symbolic execution (CrossHair + z3) over a receiver population with symbolic probed object and call sequence",
}

CHECKS["C11"] = {
    "category": "model_checking",
    "text": "(1) Tag algebra: two symbolic lists of tag indices go through the real get_tags/&/TagSet.__eq__/match_tag: equality as "
            "sets, membership, string form == object form, for every list within the bound. (2) Placement: the annotations of two "
            "parameters, three annotated assignments, one annotated re-binding of a parameter and the return annotation are chosen "
            "by a symbolic vector; the source is generated from it and probed with $x:@T, *:@T, v:@T, $x and f:@T for each tag; "
            "the raw stream (real name, value) must be exactly the bindings annotated with T and only those may be instrumented "
            "(spy on Interactor.interact). Path trees exhausted.",
    "design_ref": "DESIGN.md section 4, C11",
    "note": "Part (2) is bounded choice exploration (the solver enumerates the finite vector); values are symbolic ints.",
    "technique": "bounded symbolic execution (CrossHair + z3): tag algebra on symbolic lists, annotation placement as a solver-enumerated choice vector",
}

CHECKS["C18"] = {
    "category": "model_checking",
    "text": "(Z) z3 regex theory on the three live lexer regexes: the empty string is in none of them, hence the lexer loop always "
            "advances (termination for unbounded strings). (X1) CrossHair runs the real Lexer.__call__ on a symbolic str over all of "
            "Unicode (len <= 2, thorough 3): terminates, tokens concatenate back. (X2) token sequences chosen by a symbolic index "
            "vector (<= 3 tokens, symbolic gaps) and shaped templates with symbolic operand holes go through parse/select/probing: only "
            "SyntaxError (with offset), SelectorError or the documented TypeError may be raised, and selectors that cannot match "
            "(unknown meta-variable, !! without !, overridable without focus) must be refused by activation.",
    "design_ref": "DESIGN.md section 4, C18",
    "note": "In (X2) the solver only enumerates the finite choice space (strings are concrete once chosen; parse/select/probing run "
            "natively); \\b is dropped and \\s modelled as ASCII whitespace in (Z).",
    "technique": "z3 regex emptiness on live lexer regexes + CrossHair symbolic str through the lexer + solver-enumerated token vectors through the real parser",
}

CHECKS["C15"] = {
    "category": "model_checking",
    "text": "Eleven documented equivalence laws (f > x == f(!x); f(a) > x == f(a, !x); a > b > c == a > (b > c) == a(b(!c)); "
            "f() as r == f(!#value as r); $x == * as x in four positions and with category/value suffixes; f(b)=c == f(b, #value=c)) "
            "instantiated over operand alphabets by a symbolic choice vector (function operand, focus operand, context operand, "
            "suffix, global gap style, one local gap): every spelling and a re-spaced copy must compile to the same interned object "
            "with the right focus; identity must survive 3000 intervening compilations. (Z) z3 regex inclusion: every operator "
            "surrounded by any amount of whitespace is entirely one OPERATOR match (unbounded).",
    "design_ref": "DESIGN.md section 4, C15",
    "note": "Bounded choice exploration: the solver enumerates the finite operand/whitespace space and certifies exhaustion; parse runs natively.",
    "technique": "solver-enumerated operand/whitespace vectors through the real parser (object identity) + z3 regex inclusion for re-spacing",
}

CHECKS["C10"] = {
    "category": "model_checking",
    "text": "A skeleton function filled by a symbolic choice vector (each slot one of 26 binding/reading forms x a name; probed "
            "identifier among the names and a fresh one) is generated, compiled and passed to the real probing('f > v').__enter__(); "
            "oracle is Python's own symtable of the same source: activation must succeed iff v is a parameter / local / free / "
            "global-read name of f with matching provenance, fresh names must raise SelectorError, non-functions TypeError.",
    "design_ref": "DESIGN.md section 4, C10",
    "note": "Bounded choice exploration (the solver enumerates the finite vector; activation runs natively). Names that occur only "
            "in nested scopes are not asserted; `global N` + assignment accepts provenance body or external.",
    "technique": "solver-enumerated program-shape vectors through the real activation path, oracle = Python symtable",
}

CHECKS["C08"] = {
    "category": "model_checking",
    "text": "The current source of the 16 shared-state functions (_tooler, _untooler, SyncedStackedTransforms/StackedTransforms/"
            "TransformSet methods, BaseOverlay.__enter__/__exit__) is rewritten into coroutines with a scheduling point before every "
            "statement and between load and store of augmented attribute/subscript assignments; two (thorough: also three) virtual "
            "threads, each in its own contextvars.Context, run tool/enter/call/exit/untool rounds on one function (the call has a "
            "scheduling point between binding the code object and executing the body); the preemption "
            "positions are a symbolic vector, every schedule with <= 2 preemptions is explored and the path tree exhausted; each "
            "thread must get exactly its own events and return value and the function must end on its original code with zero "
            "counters. A failing schedule is re-enforced on real threading.Thread objects (sys.monitoring instruction gating) and "
            "only reported if it reproduces there.",
    "design_ref": "DESIGN.md section 4, C08",
    "note": "Atomicity model: statement level plus load/store split; the interior of transform() and of a call of the instrumented "
            "function is atomic. The sequentialisation was validated against real threads on 188 schedules (185 identical verdicts, 3 "
            "with the same failure reported under another class).",
    "technique": "source-level sequentialisation into virtual threads + solver-chosen bounded-preemption schedules (CrossHair + z3), real-thread replay",
}

NOT_YET = {}


def manifest():
    checks = []
    for pid in ALL:
        if pid not in CHECKS:
            continue
        c = CHECKS[pid]
        checks.append({
            "property_id": pid,
            "quick_cmd": f"bin/check {pid} --tier quick",
            "thorough_cmd": f"bin/check {pid} --tier thorough",
            "evidence_file": f"evidence/{pid}.json",
            "replay_cmd_template": f"bin/check {pid} --replay {{path}}",
            "engine": "pv",
            "level_claimed": {"category": c["category"], "text": c["text"], "design_ref": c["design_ref"]},
            "level_note": c["note"],
            "technique": c["technique"],
        })
    na = [{"property_id": p, "reason": NOT_YET.get(p, "check not built yet in this round (planned: bounded symbolic execution, see DESIGN.md section 4)")}
          for p in ALL if p not in CHECKS]
    return {
        "version": 1,
        "setup_cmd": "sh bin/setup",
        "hooks": {
            "guard": "BREULEUX_PTERA_VERIF",
            "enable": "no hooks are compiled into /repo; checks import ptera from /repo's working tree (PYTHONPATH) "
                      "and export BREULEUX_PTERA_VERIF=1 for uniformity",
            "baseline_off_cmd": "cd /repo && /venv/bin/python -m pytest -ra -q -p no:cacheprovider --timeout=900 --continue-on-collection-errors",
            "source_commits": [],
            "add_only": True,
        },
        "engines": [
            {"name": "xsym", "path": "pv/engine/xsym.py", "serves_properties": sorted(CHECKS),
             "kind_free_text": "own path-exploration driver on CrossHair 0.0.110 internals + z3: executes the real ptera code on symbolic ints/lists, one path per iteration, exhausts the path tree"},
            {"name": "seqz", "path": "pv/engine/seqz.py", "serves_properties": [p for p in ("C08",) if p in CHECKS],
             "kind_free_text": "sequentialiser: rewrites the current source of ptera's shared-state functions into generator coroutines (scheduling point before every statement, load/store split of augmented attribute/subscript assignment) run as virtual threads in separate contextvars.Contexts; schedules chosen by xsym; real-thread replay via sys.monitoring"},
            {"name": "zsmt", "path": "pv/engine/zsmt.py", "serves_properties": [p for p in ("C12", "C18", "C15") if p in CHECKS],
             "kind_free_text": "direct z3/cvc5 queries generated from live source (Python AST -> Int formulas; sre parse tree -> z3 regex)"},
        ],
        "checks": checks,
        "notes": "All checks: exit 0 = no unlisted violation in what was explored (evidence says whether the bounded space was exhausted), "
                 "exit 1 = VIOLATION replayed concretely, exit 2 = harness error. known_findings.jsonl lists recorded defects.",
        "not_applicable": na,
    }
