"""Check runner: cases -> parallel exploration -> replay -> findings -> evidence.

Usage (through bin/check):
    python -m pv.runner C12 [--tier quick|thorough] [--replay PATH] [--only CASE] [-j N]

Exit codes: 0 = no (unlisted) violation in what was explored;
            1 = VIOLATION (replayed concretely against the real code);
            2 = harness error (candidate did not reproduce, vacuity twin not
                refuted, worker crashed) -- nothing is claimed.
"""

from __future__ import annotations

import argparse
import hashlib
import importlib
import json
import multiprocessing as mp
import os
import subprocess
import sys
import time
import traceback

VERIF = os.path.dirname(os.path.dirname(os.path.abspath(__file__)))
REPO = os.environ.get("VERIF_REPO", "/repo")


def _mod(prop):
    return importlib.import_module(f"pv.props.{prop.lower()}")


def _jsonable(x):
    try:
        json.dumps(x)
        return x
    except Exception:
        if isinstance(x, dict):
            return {str(k): _jsonable(v) for k, v in x.items()}
        if isinstance(x, (list, tuple, set, frozenset)):
            return [_jsonable(v) for v in x]
        return repr(x)[:500]


# --------------------------------------------------------------------------
# worker side
# --------------------------------------------------------------------------


def run_case(arg):
    prop, case = arg
    t0 = time.perf_counter()
    try:
        mod = _mod(prop)
        kind = case.get("kind", "xsym")
        if kind == "xsym":
            from pv.engine import xsym

            harness = mod.build(case)
            res = xsym.explore(
                harness,
                timeout_s=case.get("budget_s", 60),
                per_path_timeout=case.get("per_path_s", 20),
                stop_on_refute=case.get("stop_on_refute", False),
                max_cex=case.get("max_cex", 12),
            ).as_dict()
        else:
            res = mod.run_special(case)
        res["case"] = case
        res["ok"] = True
    except BaseException as e:  # worker must never die silently
        res = {
            "case": case,
            "ok": False,
            "error": "".join(traceback.format_exception(type(e), e, e.__traceback__))[-4000:],
        }
    res["wall_s"] = time.perf_counter() - t0
    return _jsonable(res)


def replay_main(path):
    """Concrete replay of one candidate, no CrossHair tracing involved."""
    with open(path) as f:
        rp = json.load(f)
    mod = _mod(rp["property"])
    from pv.engine import xsym

    case = rp["case"]
    if case.get("kind", "xsym") == "xsym":
        harness = mod.build(case)
        reproduced, info, fp = xsym.run_concrete(harness, rp["args"], case["id"])
    else:
        reproduced, info, fp = mod.replay_special(case, rp["args"])
    out = {"reproduced": bool(reproduced), "fp": fp, "info": str(info)[:3000]}
    print("REPLAY-RESULT " + json.dumps(out))
    return out


# --------------------------------------------------------------------------
# orchestration
# --------------------------------------------------------------------------


def load_findings(prop):
    path = os.path.join(VERIF, "known_findings.jsonl")
    out = []
    if os.path.exists(path):
        with open(path) as f:
            for line in f:
                line = line.strip()
                if line and not line.startswith("#"):
                    d = json.loads(line)
                    if d.get("property") == prop:
                        out.append(d)
    return out


def child_env():
    env = dict(os.environ)
    env["PYTHONPATH"] = os.pathsep.join([REPO, VERIF])
    env["PYTHONDONTWRITEBYTECODE"] = "1"
    env["PYTHONHASHSEED"] = "0"
    return env


def do_replay(path):
    try:
        p = subprocess.run(
            [sys.executable, "-m", "pv.runner", "--replay-internal", path],
            capture_output=True,
            text=True,
            env=child_env(),
            cwd=VERIF,
            timeout=int(os.environ.get("VERIF_REPLAY_TIMEOUT", "120")),
        )
    except subprocess.TimeoutExpired:
        return {"reproduced": False, "fp": None, "info": "concrete replay timed out"}
    for line in p.stdout.splitlines():
        if line.startswith("REPLAY-RESULT "):
            return json.loads(line[len("REPLAY-RESULT "):])
    return {"reproduced": False, "fp": None, "info": "replay crashed: " + (p.stderr or p.stdout)[-2000:]}


def main(argv=None):
    ap = argparse.ArgumentParser()
    ap.add_argument("prop", nargs="?")
    ap.add_argument("--tier", default=os.environ.get("VERIF_TIER", "quick"))
    ap.add_argument("--replay")
    ap.add_argument("--replay-internal")
    ap.add_argument("--only", action="append")
    ap.add_argument("-j", type=int, default=int(os.environ.get("VERIF_JOBS", "16")))
    ap.add_argument("--no-evidence", action="store_true")
    ap.add_argument("--list", action="store_true")
    ap.add_argument("-v", action="store_true")
    a = ap.parse_args(argv)

    if a.replay_internal:
        replay_main(a.replay_internal)
        return 0
    if a.replay:
        with open(a.replay) as f:
            rp = json.load(f)
        out = do_replay(a.replay)
        print(json.dumps(out, indent=1))
        if out["reproduced"]:
            print(f"VIOLATION property={rp['property']} replay={a.replay}")
            return 1
        return 0

    prop = a.prop.upper()
    seed = int(os.environ.get("VERIF_SEED", "0"))
    t0 = time.perf_counter()
    mod = _mod(prop)
    cases = mod.cases(a.tier, seed)
    if a.only:
        cases = [c for c in cases if any(o in c["id"] for o in a.only)]
    if a.list:
        for c in cases:
            print(c["id"], c.get("budget_s"))
        return 0
    findings = load_findings(prop)
    open_fps = {f["fingerprint"]: f for f in findings if f.get("status") == "open"}

    ctx = mp.get_context("spawn")
    os.environ.update({k: v for k, v in child_env().items() if k.startswith("PYTHON")})
    results = []
    # longest budgets first
    order = sorted(cases, key=lambda c: -c.get("budget_s", 60))
    with ctx.Pool(processes=min(a.j, max(1, len(order))), maxtasksperchild=1) as pool:
        for r in pool.imap_unordered(run_case, [(prop, c) for c in order]):
            results.append(r)
            if a.v:
                c = r["case"]
                print(
                    f"  case {c['id']}: ok={r.get('ok')} paths={r.get('paths')} "
                    f"exh={r.get('exhausted')} ref={r.get('refuted')} unk={r.get('unknown')} "
                    f"wall={r.get('wall_s'):.1f}s",
                    flush=True,
                )
    results.sort(key=lambda r: r["case"]["id"])

    violations = []  # (fp, replay_path, info)
    known_hit = {}
    harness_errors = []
    replayed = 0
    seen = set()
    os.makedirs(os.path.join(VERIF, "replays"), exist_ok=True)
    todo = []  # (result, cx, path)
    twin_todo = []
    for r in results:
        c = r["case"]
        if not r.get("ok"):
            harness_errors.append(f"{c['id']}: worker error: {r.get('error')}")
            continue
        cexs = r.get("counterexamples", [])
        if c.get("vacuity_twin"):
            # reachability witness: the negated assertion must be refutable
            if not cexs:
                harness_errors.append(
                    f"{c['id']}: vacuity twin was not refuted (harness never reaches its assertion?)"
                )
            r["twin_ok"] = bool(cexs)
            if cexs and c.get("kind", "xsym") == "xsym":
                # the witness found symbolically must also be a witness when the harness runs natively: one more
                # cross-check of symbolic vs concrete execution of the real code
                cx = cexs[0]
                rp = {"property": prop, "case": c, "args": cx["args"], "message": cx["message"], "detail": cx.get("detail")}
                h = hashlib.sha1(json.dumps(rp, sort_keys=True, default=str).encode()).hexdigest()[:12]
                path = os.path.join(VERIF, "replays", f"{prop}-twin-{h}.json")
                with open(path, "w") as f:
                    json.dump(rp, f, indent=1, default=str)
                twin_todo.append((r, cx, path))
            continue
        cand_seen = set()
        for cx in cexs:
            d = cx.get("detail")
            cand = (d.get("fp") if isinstance(d, dict) else None) or cx["message"]
            if isinstance(d, dict) and d.get("fps"):
                cand = "|".join(sorted(map(str, d["fps"])))
            if cand in cand_seen:  # one replay per (case, candidate fingerprint)
                continue
            cand_seen.add(cand)
            rp = {"property": prop, "case": c, "args": cx["args"], "message": cx["message"],
                  "detail": cx.get("detail")}
            h = hashlib.sha1(json.dumps(rp, sort_keys=True, default=str).encode()).hexdigest()[:12]
            path = os.path.join(VERIF, "replays", f"{prop}-{h}.json")
            with open(path, "w") as f:
                json.dump(rp, f, indent=1, default=str)
            todo.append((r, cx, path))
    from concurrent.futures import ThreadPoolExecutor

    with ThreadPoolExecutor(max_workers=max(1, a.j)) as tp:
        outs = list(tp.map(lambda t: do_replay(t[2]), todo))
        touts = list(tp.map(lambda t: do_replay(t[2]), twin_todo))
    for (r, cx, path), out in zip(twin_todo, touts):
        try:
            os.remove(path)
        except OSError:
            pass
        if not out["reproduced"]:
            harness_errors.append(f"{r['case']['id']}: vacuity witness found symbolically does not reproduce natively: {out['info'][:300]}")
        else:
            r["validated_concretely"] = r.get("validated_concretely", 0) + 1
    for (r, cx, path), out in zip(todo, outs):
        c = r["case"]
        replayed += 1
        cx["replay"] = out
        cx["replay_path"] = path
        if not out["reproduced"]:
            harness_errors.append(
                f"{c['id']}: candidate counterexample did not reproduce concretely "
                f"({cx['message']}; args={cx['args']}): {out['info'][:500]}"
            )
            continue
        fps = out["fp"] or f"{c['id']}:{cx['message']}"
        fps = fps if isinstance(fps, list) else [fps]  # a path may report several distinct failures
        keep = False
        for fp in fps:
            if fp in seen:
                continue
            seen.add(fp)
            if fp in open_fps:
                known_hit.setdefault(fp, path)
            else:
                keep = True
                violations.append((fp, path, out["info"]))
        if not keep:
            try:
                os.remove(path)
            except OSError:
                pass

    for fp, path in sorted(known_hit.items()):
        print(f"KNOWN-FINDING: property={prop} {open_fps[fp]['what']} [fingerprint {fp}]")
    for fp, path, info in violations:
        print(f"VIOLATION property={prop} replay={path}")
        print(f"  fingerprint: {fp}")
        print(f"  {info[:600]}")
    for e in harness_errors:
        print(f"HARNESS-ERROR property={prop} {e}")

    wall = time.perf_counter() - t0
    if not a.no_evidence and not a.only:
        from pv import evidence

        evidence.write(prop, a.tier, seed, mod, results, violations, known_hit, harness_errors,
                       replayed, wall)
    # summary
    n_ok = [r for r in results if r.get("ok") and not r["case"].get("vacuity_twin")]
    exh = sum(1 for r in n_ok if r.get("exhausted"))
    paths = sum(r.get("paths", 0) for r in results if r.get("ok"))
    inconcl = [r["case"]["id"] for r in n_ok if not r.get("exhausted") or r.get("unknown")]
    verdict = "VIOLATION" if violations else ("HARNESS-ERROR" if harness_errors else (
        "HOLDS-IN-BOUNDS" if not inconcl else "INCONCLUSIVE(partial)"))
    print(
        f"[{prop} {a.tier}] {verdict}: cases={len(results)} exhausted={exh}/{len(n_ok)} paths={paths} "
        f"z3_checks={sum(r.get('z3_calls', 0) for r in results if r.get('ok'))} "
        f"known_findings={len(known_hit)} violations={len(violations)} wall={wall:.1f}s"
    )
    if inconcl:
        print(f"  inconclusive cases (not exhausted / unknown paths): {inconcl[:12]}")
    if violations:
        return 1
    if harness_errors:
        return 2
    return 0


if __name__ == "__main__":
    sys.exit(main())
