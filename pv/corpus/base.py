"""Template plumbing: helper library visible to template programs, loading, observation."""

from __future__ import annotations

from pv.engine.xsym import assume, pick
from pv.refinst import Recorder, load_source, make_twin_source, T_NAME


class Boom(Exception):
    """The templates' own exception type (its args are part of the observable outcome)."""


class Helpers:
    """Per-namespace helper state (effect log)."""

    def __init__(self):
        self.log = []

    def eff(self, tag, v=None):
        self.log.append((tag, v))
        return v

    def namespace(self):
        H = self

        class CM:
            """Context manager with observable enter/exit; `swallow` suppresses Boom."""

            def __init__(self, v, swallow=False):
                self.v, self.swallow = v, swallow

            def __enter__(self):
                H.eff("cm_enter", self.v)
                return self.v

            def __exit__(self, et, ev, tb):
                H.eff("cm_exit", None if et is None else et.__name__)
                return bool(self.swallow and et is not None and issubclass(et, Boom))

        class Obj:
            def __init__(self, **kw):
                self.__dict__.update(kw)

        def mkiter(kind, *xs):
            """The same values wrapped as different kinds of iterable."""
            if kind == 0:
                return list(xs)
            if kind == 1:
                return tuple(xs)
            if kind == 2:
                return iter(list(xs))
            if kind == 3:
                return (x for x in xs)
            if kind == 4:  # dict: iteration yields the (concrete) keys 10, 20, ...
                return {10 * (i + 1): x for i, x in enumerate(xs)}
            if kind == 5:  # dict whose keys are valid indexes in reverse order
                n = len(xs)
                return {n - 1 - i: x for i, x in enumerate(xs)}
            if kind == 6:
                return range(len(xs))
            raise ValueError(kind)

        return {
            "eff": H.eff, "bound": lambda v, lo, hi: assume(lo <= v <= hi), "pick": pick,
            "Boom": Boom, "CM": CM, "Obj": Obj, "mkiter": mkiter,
        }


def reset_memo_tables():
    """Clear functools caches defined in ptera's modules: a memo must not carry one path's history into the next
    (the unchanged library has none; a change that adds one is then exercised from an empty table on every path)."""
    import sys

    for mname, m in list(sys.modules.items()):
        if mname == "ptera" or mname.startswith("ptera."):
            for obj in list(vars(m).values()):
                if callable(getattr(obj, "cache_clear", None)):
                    try:
                        obj.cache_clear()
                    except Exception:  # pragma: no cover
                        pass


def load(tmpl, twin=False, recorder=None):
    """Fresh namespace (fresh function objects) for a template; returns (ns, helpers)."""
    reset_memo_tables()
    H = Helpers()
    extra = H.namespace()
    src = tmpl["src"]
    if twin:
        src = twin_source(tmpl)
        extra[T_NAME] = recorder
    ns = load_source(src, modname="pv_" + tmpl["name"] + ("_twin" if twin else ""), extra=extra)
    return ns, H


_twin_cache = {}


def twin_source(tmpl):
    k = tmpl["name"]
    if k not in _twin_cache:
        _twin_cache[k] = make_twin_source(tmpl["src"], tmpl.get("twin_funcs") or tmpl.get("funcs", ["f"]))
    return _twin_cache[k]


def outcome(thunk):
    """Observable outcome of a call: ('ok', value) | ('exc', type name, args-if-own-exception)."""
    try:
        return ("ok", thunk())
    except Boom as e:
        return ("exc", "Boom", e.args)
    except Exception as e:
        return ("exc", type(e).__name__, None)


def drive_gen(gen, ops, vals):
    """Drive a generator with a list of concrete op codes and (symbolic) values.

    ops: 0 = next, 1 = send(val), 2 = throw(Boom(val)), 3 = close; stops at the first
    StopIteration / exception.  Returns the observable transcript.
    """
    out = []
    started = False
    for op, v in zip(ops, vals):
        try:
            if op == 0:
                out.append(("y", next(gen)))
                started = True
            elif op == 1:
                out.append(("y", gen.send(v if started else None)))
                started = True
            elif op == 2:
                out.append(("y", gen.throw(Boom(v))))
                started = True
            else:
                gen.close()
                out.append(("closed",))
                break
        except StopIteration as e:
            out.append(("stop", e.value))
            break
        except Boom as e:
            out.append(("exc", "Boom", e.args))
            break
        except Exception as e:
            out.append(("exc", type(e).__name__))
            break
    try:
        gen.close()
    except Exception as e:  # pragma: no cover
        out.append(("close-exc", type(e).__name__))
    return out


def norm(v):
    """Normalise values that are distinct objects in the two runs (exceptions, modules, functions)."""
    import types

    if isinstance(v, BaseException):
        return ("<exc>", type(v).__name__, v.args if isinstance(v, Boom) else None)
    if isinstance(v, types.ModuleType):
        return ("<module>", v.__name__)
    if isinstance(v, (types.FunctionType, types.BuiltinFunctionType, types.MethodType)):
        return ("<function>", getattr(v, "__name__", "?"))
    return v


def rec_events(rec, kinds=None):
    ev = rec.log()
    if kinds is not None:
        ev = [e for e in ev if e[0] in kinds]
    return ev


__all__ = ["Boom", "Helpers", "load", "twin_source", "outcome", "drive_gen", "Recorder", "rec_events"]
