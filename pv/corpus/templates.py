"""Template programs.  Every template defines `f` (the function that gets instrumented;
`funcs` lists more) and `drive(a, b, c, d)` mapping four symbolic ints to a call.

Control flow and data are driven by the symbolic parameters, so one template stands for
the whole family of its paths.  Helpers available as globals: eff, bound, pick, Boom, CM,
Obj, mkiter (see corpus/base.py).

Fields: name, src, funcs (instrumented/twinned functions, default ['f']), vars (names a
probe may focus on, per function 'f'), forms (statement forms covered), gen (generator
driver), defect (isolates a known-defect form; general templates stay clean of it).
"""

TEMPLATES = []


def T(name, src, vars=(), forms=(), funcs=("f",), defect=None, gen=False, ctx=(), twin_funcs=None):
    TEMPLATES.append({"name": name, "src": src, "vars": list(vars), "forms": list(forms),
                      "funcs": list(funcs), "defect": defect, "gen": gen, "ctx": list(ctx),
                      "twin_funcs": list(twin_funcs or funcs)})


# ---------------------------------------------------------------- straight line
T("plain", '''
def f(x, y):
    """doc of f"""
    s = x + y
    t: int = s * 2
    u = v = t - x
    u += eff("aug", y)
    v -= 1
    return u * v

def drive(a, b, c, d):
    return f(a, b)
''', vars=["x", "y", "s", "t", "u", "v"], forms=["assign", "annassign", "chained", "augassign", "docstring"],
  ctx=["x", "s"])

T("tuples", '''
def f(x, y):
    p, q = eff("rhs", (x, y))
    (m, (n, o)) = (q, (p, x + y))
    p, q = q, p
    return (p, q, m, n, o)

def drive(a, b, c, d):
    return f(a, b)
''', vars=["p", "q", "m", "n", "o"], forms=["tuple", "nested tuple", "swap"], ctx=["p", "x"])

T("list_target", '''
def f(x, y):
    [g, h] = [x + 1, y - 1]
    return (g, h)

def drive(a, b, c, d):
    return f(a, b)
''', vars=["g", "h"], forms=["list target"], defect="list_target", ctx=["x"])

T("selfref_unpack", '''
def f(x, y):
    node = (x, (y, x - y))
    node, depth = node
    item = [y, [x, y]]
    item, nxt = item
    return (node, depth, item, nxt)

def drive(a, b, c, d):
    return f(a, b)
''', vars=["node", "depth", "item"], forms=["tuple target that is also the source"], ctx=["depth"])

T("unpack_order", '''
def f(lst, o, x, y):
    i = 0
    i, lst[i] = pick(x, 3), y
    j, o.val = 1, i + y
    [k, lst[k], (k, lst[k])] = [0, x, (pick(y, 3), i)]
    return (i, j, k)

def drive(a, b, c, d):
    lst = [0, 0, 0]
    o = Obj(val=0)
    r = f(lst, o, a, b)
    return (r, lst, o.val)
''', vars=["i", "j", "k"], forms=["unpacking whose later targets use the names bound by earlier ones"], ctx=["i"])

T("builtin_shadow", '''
def f(x):
    y = abs(x) + 1
    return y

def drive(a, b, c, d):
    g = globals()
    r1 = f(a)
    if pick(c, 2):
        g["abs"] = lambda v: v * 2
    r2 = f(a)
    g.pop("abs", None)
    r3 = f(a)
    return (r1, r2, r3)
''', vars=["y"], forms=["builtin shadowed by a module global between calls"])

T("unpack_kinds", '''
def f(k, x, y):
    src = mkiter(k, x, y)
    p, q = src
    return (p, q)

def drive(a, b, c, d):
    k = pick(c, 7)
    return f(k, a, b)
''', vars=["p", "q"], forms=["tuple from non-indexable iterable"], defect="unpack")

T("unpack_len", '''
def f(n, x, y):
    src = [x, y, x + y][:n]
    p, q = src
    return (p, q)

def drive(a, b, c, d):
    n = pick(c, 4)
    return f(n, a, b)
''', vars=["p", "q"], forms=["tuple unpack length check"], defect="unpack")

T("starred", '''
def f(x, y):
    p, *q = [x, y, x + y]
    *r, s = (y, x)
    return (p, q, r, s)

def drive(a, b, c, d):
    return f(a, b)
''', vars=["p", "q", "s"], forms=["starred target"], defect="starred")

T("attr_sub", '''
def f(o, lst, x, y):
    o.val = eff("attr", x)
    lst[0] = eff("sub", y)
    lst[1] = lst[0] + o.val
    o.val += 1
    lst[0] -= 1
    w = o.val + lst[0] + lst[1]
    return w

def drive(a, b, c, d):
    o = Obj(val=0)
    lst = [0, 0]
    r = f(o, lst, a, b)
    return (r, o.val, lst)
''', vars=["w", "x"], forms=["attribute store", "subscript store", "augmented attribute/subscript"], ctx=["x"])

T("sub_sidefx", '''
def f(lst, x):
    def idx():
        return eff("idx", 1)
    lst[idx()] = eff("val", x)
    return lst

def drive(a, b, c, d):
    lst = [0, 0, 0]
    return f(lst, a)
''', vars=["x"], forms=["subscript store with side-effecting index"], defect="subidx")

T("chained_mixed", '''
def f(o, lst, x):
    a1 = o.val = lst[0] = a2 = eff("rhs", x)
    return (a1, a2, o.val, lst[0])

def drive(a, b, c, d):
    o = Obj(val=0)
    lst = [0]
    return (f(o, lst, a), o.val, lst)
''', vars=["a1", "a2"], forms=["chained with attribute and subscript"], ctx=["a1"])

# ---------------------------------------------------------------- control flow
T("for_loop", '''
def f(x, n, brk):
    acc = x
    for i in range(n):
        if i == brk:
            eff("break", i)
            break
        if (acc + i) % 2 == 0:
            continue
        acc = acc + i
    else:
        acc = acc - 1
        eff("else", acc)
    return acc

def drive(a, b, c, d):
    bound(c, 0, 3)
    bound(d, 0, 3)
    return f(a, c, d)
''', vars=["acc", "i", "x"], forms=["for", "break", "continue", "for-else"], ctx=["i", "x"])

T("while_loop", '''
def f(x, n):
    k = 0
    tot = x
    while k < n:
        k += 1
        if tot > 10:
            eff("big", tot)
            break
        tot = tot + k
    else:
        tot = -tot
    return tot

def drive(a, b, c, d):
    bound(c, 0, 3)
    return f(a, c)
''', vars=["k", "tot"], forms=["while", "while-else", "break"], ctx=["k"])

T("nested_loops", '''
def f(x, n, m, stop):
    tot = 0
    for i in range(n):
        for j in range(m):
            if i + j == stop:
                return eff("early", tot)
            tot = tot + x
        tot = tot + 1
    return tot

def drive(a, b, c, d):
    bound(b, 0, 2)
    bound(c, 0, 2)
    bound(d, 0, 3)
    return f(a, b, c, d)
''', vars=["tot", "i", "j"], forms=["nested for", "return inside loop"], ctx=["i", "j"])

T("try_paths", '''
def f(x, sel):
    r = 0
    try:
        r = x + 1
        if sel == 1:
            raise Boom(x)
        if sel == 2:
            raise KeyError(x)
        r = r * 2
    except Boom as e:
        r = e.args[0] - 1
        eff("boom", r)
    else:
        r = r + 100
    finally:
        r = r + 1000
        eff("finally", r)
    return r

def drive(a, b, c, d):
    return f(a, pick(c, 3))
''', vars=["r", "e"], forms=["try", "except-as", "else", "finally", "propagating exception"], ctx=["r", "x"])

T("try_unnamed", '''
def f(x, sel):
    r = x
    try:
        if sel == 1:
            raise Boom(x)
        if sel == 2:
            raise KeyError(x)
        r = r + 1
    except Boom:
        r = r * 2
        s = r - 1
    except:
        r = -r
        s = 0
    else:
        s = r + 5
    return (r, s)

def drive(a, b, c, d):
    return f(a, pick(c, 3))
''', vars=["r", "s"], forms=["except without a name", "bare except"], ctx=["r", "x"])

T("try_return_fallthrough", '''
def f(x, sel):
    try:
        if sel == 1:
            raise Boom(x)
        if sel == 2:
            return eff("ret", x)
        raise KeyError(x)
    except Boom:
        eff("caught", x)
    except KeyError as ke:
        y = x + 1

def drive(a, b, c, d):
    return f(a, pick(c, 3))
''', vars=["y", "x"], forms=["function ending with try/return whose handlers fall off the end"], ctx=["x"])

T("callpath", '''
def inner(v):
    x = v + 1
    return x * 2

def f(a, n):
    tot = 0
    for i in range(n):
        tot = tot + inner(a + i)
    return tot

def drive(a, b, c, d):
    bound(c, 0, 2)
    return (f(a, c), inner(b))
''', vars=["tot", "i"], funcs=("f",), twin_funcs=["f", "inner"], forms=["call path f > inner"], ctx=["a"])

T("try_finally_return", '''
def f(x, sel):
    for i in range(2):
        try:
            if sel == 0:
                return eff("ret-try", x)
            if sel == 1 and i == 1:
                raise Boom(x + i)
            if sel == 2:
                break
            if sel == 3:
                continue
            x = x + 1
        finally:
            eff("fin", i)
            if sel == 4:
                return eff("ret-fin", x + 7)
    return x

def drive(a, b, c, d):
    return f(a, pick(c, 6))
''', vars=["x", "i"], forms=["return/break/continue/raise inside try-finally inside for", "return in finally"],
  ctx=["i"])

T("with_cm", '''
def f(x, sel):
    with CM(x, swallow=(sel == 2)) as w:
        y = w + 1
        if sel >= 1:
            raise Boom(y)
        y = y * 2
    with CM(y) as u, CM(x + y) as (v):
        z = u + v
    return (y, z)

def drive(a, b, c, d):
    return f(a, pick(c, 3))
''', vars=["y", "z", "x"], forms=["with", "with swallowing an exception", "multiple with items"], ctx=["x"])

T("with_swallow_return", '''
def f(x, sel):
    y = x
    with CM(x, swallow=True):
        if sel == 1:
            raise Boom(x)
        y = x + 1
        return y

def drive(a, b, c, d):
    return f(a, pick(c, 2))
''', vars=["y", "x"], forms=["function ending in a with block whose body returns and whose manager may swallow an exception"],
  ctx=["x"])

T("called_in_handler", '''
def f(x, sel):
    y = x + 1
    if sel == 1:
        raise Boom(y)
    return y

def drive(a, b, c, d):
    sel = pick(c, 2)
    out = []
    try:
        raise Boom(a)
    except Boom:
        try:
            out.append(f(a, sel))
        except Boom as e:
            out.append(("boom", e.args))
    try:
        try:
            raise Boom(b)
        finally:
            out.append(f(b, 0))
    except Boom:
        pass
    return out
''', vars=["y", "x"], forms=["function called while its caller is handling / propagating another exception"], ctx=["x"])

T("with_target", '''
def f(x):
    with CM(x + 1) as w:
        y = w * 2
    with CM((x, y)) as (p, q):
        z = p + q
    return (w, z)

def drive(a, b, c, d):
    return f(a)
''', vars=["w", "p"], forms=["with-target binding"], defect="with_target", ctx=["x"])

T("walrus", '''
def f(x, y):
    if (n := x + 1) > y:
        r = n
    else:
        r = y
    while (n := n - 1) > r - 2:
        eff("dec", n)
    return (n, r)

def drive(a, b, c, d):
    return f(a, b)
''', vars=["n", "r"], forms=["assignment expression in if/while tests"], ctx=["r"])

T("walrus_rhs", '''
def f(x):
    y = (z := x * 2) + 1
    w: int = (v := y + 1) * 2
    p, q = (u := w + 1), x
    [m, *n] = [(k := u - 1), k + 1, k + 2]
    return (y, z, w, v, p, q, u, m, n, k)

def drive(a, b, c, d):
    return f(a)
''', vars=["z", "v", "u", "k", "p"], forms=["assignment expression inside the right-hand side of a plain / annotated / "
                                       "tuple / starred assignment"],
  defect="walrus_rhs", ctx=["x"])

T("imports", '''
def f(x):
    import math as m
    from operator import add as plus, mul
    import collections
    r = plus(m.floor(2.5), mul(x, 2))
    od = collections.OrderedDict()
    od[1] = r
    return list(od.items())

def drive(a, b, c, d):
    return f(a)
''', vars=["m", "plus", "mul", "collections", "r"], forms=["import", "from-import", "import as"], ctx=["x"])

T("import_dotted", '''
def f(x):
    import os.path
    return os.path.basename("a/b") + str(len(os.sep))

def drive(a, b, c, d):
    return f(a)
''', vars=["os"], forms=["import of a dotted module binds the top-level name"], defect="import_dotted")

T("nested_scopes", '''
def f(x, y):
    k = x + 1
    def inner(z):
        return z + k
    sq = lambda t: t * y
    lst = [inner(i) for i in range(2)]
    dct = {i: sq(i) for i in range(2)}
    tot = sum(v for v in lst) + dct[1]
    return (tot, inner(y), sq(k))

def drive(a, b, c, d):
    return f(a, b)
''', vars=["k", "lst", "tot"], forms=["nested def", "lambda", "comprehensions", "generator expression"], ctx=["k"])

T("nested_class", '''
def f(x):
    class K:
        val = 3
        def get(self):
            return self.val + x
    return K().get()

def drive(a, b, c, d):
    return f(a)
''', vars=["x"], forms=["class statement inside the function"], defect="nested_class")

T("closure_read", '''
def make(k):
    def f(x):
        y = x + k
        return y * k
    return f

f = make(5)

def drive(a, b, c, d):
    return f(a)
''', vars=["y", "x"], forms=["closure variable read"], ctx=["x"], twin_funcs=["make.f"])

T("closure_nonlocal", '''
def make():
    cnt = 0
    def f(x):
        nonlocal cnt
        cnt = cnt + x
        y = cnt * 2
        return y
    def peek():
        return cnt
    return f, peek

f, peek = make()

def drive(a, b, c, d):
    r1 = f(a)
    r2 = f(b)
    return (r1, r2, peek())
''', vars=["y", "x"], forms=["nonlocal write shared with a sibling closure"], ctx=["x"], twin_funcs=["make.f"],
  defect="nonlocal")

T("globals_rw", '''
G = 10
H = [0]

def f(x):
    global G
    y = G + x
    G = y
    H[0] = H[0] + len(str(abs(1)))
    return (y, min(x, 3), G)

def drive(a, b, c, d):
    r = f(a)
    return (r, G, H)
''', vars=["y", "x"], forms=["global statement", "global read", "builtin read"], ctx=["x"])

T("globals_falsy", '''
NOTHING = None
ZERO = 0
EMPTY = ""
FLAG = False

def f(x):
    r = x if NOTHING is None else -x
    s = r + ZERO + len(EMPTY)
    t = s if not FLAG else 0
    return (r, s, t, NOTHING, EMPTY)

def drive(a, b, c, d):
    return f(a)
''', vars=["r", "s", "t"], forms=["reads of globals whose values are None / 0 / '' / False"],
  ctx=["x"])

T("params", '''
def f(p, /, q, r=7, *rest, k, kd=11, **kw):
    tot = p + q + r + k + kd
    for v in rest:
        tot = tot + v
    for name in sorted(kw):
        tot = tot + kw[name]
    return tot

def drive(a, b, c, d):
    sel = pick(d, 3)
    if sel == 0:
        return f(a, b, k=c)
    if sel == 1:
        return f(a, q=b, k=c, kd=1, extra=a)
    return f(a, b, c, a, b, k=c, z=1)
''', vars=["p", "q", "r", "rest", "k", "kd", "kw", "tot"],
  forms=["positional-only", "keyword-only", "defaults", "*args", "**kwargs"], ctx=["p", "k"])

T("recursion", '''
def f(n, x):
    if n <= 0:
        return x
    y = f(n - 1, x + n)
    return y + 1

def drive(a, b, c, d):
    bound(c, 0, 3)
    return f(c, a)
''', vars=["y", "n", "x"], forms=["recursion"], ctx=["n"])

T("passthrough", '''
def f(x, d0):
    data = {1: x, 2: x + 1}
    del data[1]
    assert len(data) == 1, "one left"
    try:
        if d0 == 1:
            raise Boom(x) from ValueError("cause")
        v = data[2 if d0 == 0 else 3]
    except KeyError as err:
        v = -1
        del err
    s = f"{d0}-{len(data)!r}"
    t = v if v > x else x
    return (s, t, [*data], {**data})

def drive(a, b, c, d):
    return f(a, pick(c, 3))
''', vars=["v", "t", "data"], forms=["del", "assert", "raise from", "f-string", "conditional expression", "star display"],
  ctx=["x"])

T("no_return", '''
def f(o, x):
    y = x + 1
    o.val = y

def drive(a, b, c, d):
    o = Obj(val=0)
    r = f(o, a)
    return (r, o.val)
''', vars=["y"], forms=["function without return statement"], ctx=["x"])

T("method", '''
class K:
    def __init__(self, base):
        self.base = base

    def f(self, x):
        y = self.base + x
        self.base = y
        return y * 2

obj = K(3)

def drive(a, b, c, d):
    r1 = obj.f(a)
    r2 = obj.f(b)
    return (r1, r2, obj.base)
''', vars=["y", "x"], funcs=("K.f",), forms=["method", "attribute store on self"], ctx=["x"])

# ---------------------------------------------------------------- generators
T("gen_loop", '''
def f(x, n):
    tot = x
    for i in range(n):
        got = yield tot
        if got is not None:
            tot = tot + got
        tot = tot + i
    return tot

def drive(a, b, c, d):
    bound(c, 0, 2)
    return f(a, c)
''', vars=["tot", "i", "got"], forms=["generator", "r = yield v", "return in generator"], gen=True, ctx=["i"])

T("gen_stmt", '''
def f(x, n):
    k = x
    for i in range(n):
        try:
            yield k
            k = k + 1
        except Boom as e:
            k = e.args[0]
            yield eff("caught", k)
        finally:
            eff("fin", i)
    yield -k

def drive(a, b, c, d):
    bound(c, 0, 2)
    return f(a, c)
''', vars=["k", "i"], forms=["yield statement", "yield inside try/except/finally"], gen=True, ctx=["i"])

T("gen_from", '''
def sub(x):
    r = yield x
    r2 = yield (x + (r or 0))
    return (r2 or 0) + 1

def f(x, n):
    y = yield from sub(x)
    z = y + n
    yield z

def drive(a, b, c, d):
    return f(a, b)
''', vars=["y", "z"], forms=["yield from"], gen=True, ctx=["x"])


class _ByName(dict):
    """Hand-written templates by name; names gen<seed>_<k> are regenerated on demand (pv/corpus/gen.py)."""

    def __missing__(self, name):
        if name.startswith("gen") and "_" in name:
            from pv.corpus.gen import generate

            seed, k = name[3:].split("_")
            t = generate(int(seed), int(k))
            self[name] = t
            return t
        raise KeyError(name)


BY_NAME = _ByName({t["name"]: t for t in TEMPLATES})


def generated(seed, n):
    from pv.corpus.gen import batch

    return batch(seed, n)
