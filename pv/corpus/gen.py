"""Seeded grammar-based generator of template programs (program dimension beyond the hand-written catalogue).

generate(seed, k) -> template dict in the format of corpus/templates.py.  The body of `f(a, b, c, d)` is a random
composition (depth <= 3, <= ~14 statements) of the statement forms the properties list: plain / tuple / nested-tuple /
starred / chained / augmented / annotated assignment, attribute and subscript stores, if/else, for (with break /
continue / else), bounded while, try/except/else/finally with conditional raises, with (plain and with target),
walrus, early return.  Data are linear integer expressions over the symbolic arguments; every branch condition
compares such expressions, so the solver -- not the generator -- decides which paths exist.  Loops iterate over
constant ranges (<= 2 iterations) so every program terminates under any override of any variable.
Variables are only read after they have certainly been bound (conservative definite-assignment tracking).
"""

from __future__ import annotations

import random

VARS = ["v0", "v1", "v2", "v3", "v4"]
ARGS = ["a", "b", "c", "d"]


class _Gen:
    def __init__(self, rnd):
        self.r = rnd
        self.lines = []
        self.nstmts = 0
        self.loopvars = 0
        self.bound_anywhere = set()

    # ---- expressions (linear in the symbolic arguments)
    def atom(self, defined):
        pool = list(defined) + ARGS + [str(self.r.randint(-3, 5))]
        return self.r.choice(pool)

    def expr(self, defined):
        k = self.r.random()
        if k < 0.35:
            return self.atom(defined)
        if k < 0.75:
            return f"{self.atom(defined)} {self.r.choice('+-')} {self.atom(defined)}"
        if k < 0.9:
            return f"{self.atom(defined)} * {self.r.randint(2, 3)}"
        return f'eff("e{self.nstmts}", {self.atom(defined)})'

    def cond(self, defined):
        return f"{self.atom(defined)} {self.r.choice(['<', '<=', '==', '!=', '>'])} {self.atom(defined)}"

    def emit(self, ind, text):
        self.lines.append("    " * ind + text)

    def newvar(self):
        v = self.r.choice(VARS)
        self.bound_anywhere.add(v)
        return v

    # ---- statements; returns the set of variables certainly defined afterwards
    def block(self, ind, defined, depth, inloop, n):
        defined = set(defined)
        for _ in range(n):
            if self.nstmts >= 14:
                break
            defined = self.stmt(ind, defined, depth, inloop)
        if not self.lines or not self.lines[-1].startswith("    " * ind) or self.lines[-1].rstrip().endswith(":"):
            self.emit(ind, "pass")
        return defined

    def stmt(self, ind, defined, depth, inloop):
        self.nstmts += 1
        r = self.r
        choices = ["assign"] * 4 + ["aug", "tuple", "chained", "ann", "walrus", "attr", "sub", "eff"]
        if depth < 3:
            choices += ["if"] * 3 + ["for"] * 2 + ["try"] * 2 + ["with", "while"]
        if inloop:
            choices += ["break", "continue"]
        if depth > 0:
            choices += ["return"]
        k = r.choice(choices)
        if k == "assign":
            v = self.newvar()
            self.emit(ind, f"{v} = {self.expr(defined)}")
            return defined | {v}
        if k == "aug":
            cands = sorted(defined & set(VARS))
            if not cands:
                return self.stmt(ind, defined, depth, inloop)
            self.emit(ind, f"{r.choice(cands)} {r.choice(['+=', '-='])} {self.expr(defined)}")
            return defined
        if k == "tuple":
            v, w = r.sample(VARS, 2)
            self.bound_anywhere |= {v, w}
            form = r.random()
            if form < 0.4:
                self.emit(ind, f"{v}, {w} = {self.expr(defined)}, {self.expr(defined)}")
            elif form < 0.6:
                x = self.newvar()
                self.emit(ind, f"{v}, ({w}, {x}) = {self.atom(defined)}, ({self.atom(defined)}, {self.atom(defined)})")
                return defined | {v, w, x}
            elif form < 0.8:
                self.emit(ind, f"{v}, *{w} = mkiter({r.randint(0, 3)}, {self.atom(defined)}, {self.atom(defined)}, {self.atom(defined)})")
            else:
                self.emit(ind, f"[{v}, {w}] = mkiter({r.randint(0, 3)}, {self.atom(defined)}, {self.atom(defined)})")
            return defined | {v, w}
        if k == "chained":
            v, w = r.sample(VARS, 2)
            self.bound_anywhere |= {v, w}
            self.emit(ind, f"{v} = {w} = {self.expr(defined)}")
            return defined | {v, w}
        if k == "ann":
            v = self.newvar()
            self.emit(ind, f"{v}: int = {self.expr(defined)}")
            return defined | {v}
        if k == "walrus":
            v = self.newvar()
            self.emit(ind, f"if ({v} := {self.expr(defined)}) > {self.atom(defined)}:")
            self.emit(ind + 1, f'eff("w{self.nstmts}", {v})')
            return defined | {v}
        if k == "attr":
            self.emit(ind, f"o.val = {self.expr(defined)}")
            return defined
        if k == "sub":
            self.emit(ind, f"lst[{r.randint(0, 1)}] = {self.expr(defined)}")
            return defined
        if k == "eff":
            self.emit(ind, f'eff("s{self.nstmts}", {self.atom(defined)})')
            return defined
        if k == "if":
            self.emit(ind, f"if {self.cond(defined)}:")
            d1 = self.block(ind + 1, defined, depth + 1, inloop, r.randint(1, 2))
            if r.random() < 0.6:
                self.emit(ind, "else:")
                d2 = self.block(ind + 1, defined, depth + 1, inloop, r.randint(1, 2))
                return d1 & d2
            return defined
        if k == "for":
            self.loopvars += 1
            i = f"i{self.loopvars}"
            self.bound_anywhere.add(i)
            self.emit(ind, f"for {i} in range({r.randint(1, 2)}):")
            self.block(ind + 1, defined | {i}, depth + 1, True, r.randint(1, 3))
            if r.random() < 0.3:
                self.emit(ind, "else:")
                self.block(ind + 1, defined, depth + 1, inloop, 1)
            return defined
        if k == "while":
            self.loopvars += 1
            n = f"n{self.loopvars}"
            self.bound_anywhere.add(n)
            self.emit(ind, f"{n} = 0")
            self.emit(ind, f"while {n} < {r.randint(1, 2)}:")
            self.emit(ind + 1, f"{n} += 1")
            self.block(ind + 1, defined | {n}, depth + 1, True, r.randint(1, 2))
            return defined | {n}
        if k == "try":
            self.emit(ind, "try:")
            self.emit(ind + 1, f"if {self.cond(defined)}:")
            self.emit(ind + 2, f"raise Boom({self.atom(defined)})")
            self.block(ind + 1, defined, depth + 1, inloop, r.randint(1, 2))
            form = r.random()
            if form < 0.7:
                ev = "ex" if r.random() < 0.5 else None
                self.emit(ind, f"except Boom{' as ex' if ev else ''}:")
                if ev:
                    self.bound_anywhere.add("ex")
                self.block(ind + 1, defined, depth + 1, inloop, r.randint(1, 2))
                if r.random() < 0.3:
                    self.emit(ind, "else:")
                    self.block(ind + 1, defined, depth + 1, inloop, 1)
            if form >= 0.5:
                self.emit(ind, "finally:")
                self.emit(ind + 1, f'eff("f{self.nstmts}", {self.atom(defined)})')
            return defined
        if k == "with":
            if r.random() < 0.5:
                w = self.newvar()
                self.emit(ind, f"with CM({self.expr(defined)}) as {w}:")
                d = self.block(ind + 1, defined | {w}, depth + 1, inloop, r.randint(1, 2))
                return defined | {w}
            self.emit(ind, f"with CM({self.atom(defined)}, swallow={r.random() < 0.5}):")
            self.block(ind + 1, defined, depth + 1, inloop, r.randint(1, 2))
            return defined
        if k in ("break", "continue"):
            self.emit(ind, f"if {self.cond(defined)}:")
            self.emit(ind + 1, k)
            return defined
        if k == "return":
            self.emit(ind, f"if {self.cond(defined)}:")
            self.emit(ind + 1, f"return {self.expr(defined)}")
            return defined
        raise AssertionError(k)


def generate(seed, k):
    rnd = random.Random(seed * 7919 + k)
    g = _Gen(rnd)
    defined = g.block(1, set(), 0, False, rnd.randint(4, 7))
    ret = ", ".join(sorted(defined & set(VARS)) or ["a"])
    body = "\n".join(g.lines)
    src = f'''
def f(a, b, c, d, o, lst):
{body}
    return ({ret},)

def drive(a, b, c, d):
    o = Obj(val=0)
    lst = [0, 0]
    r = f(a, b, c, d, o, lst)
    return (r, o.val, lst)
'''
    names = sorted(g.bound_anywhere - {"ex"}) + ARGS[:2]
    return {"name": f"gen{seed}_{k}", "src": src, "vars": names, "forms": ["generated"], "funcs": ["f"], "twin_funcs": ["f"],
            "defect": None, "gen": False, "ctx": ["a"] + sorted(defined & set(VARS))[:1], "generated": True}


def batch(seed, n):
    out = []
    k = 0
    while len(out) < n and k < 10 * n:
        t = generate(seed, k)
        k += 1
        try:
            compile(t["src"], "<gen>", "exec", dont_inherit=True)
        except SyntaxError:
            continue
        out.append(t)
    return out
